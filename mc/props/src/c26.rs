//! C26 — the network host allow-list is enforced on every request (initial request and every redirect hop).
//!
//! S-env / S-inp, level model_checking. The real `RestrictedResolver` (public) is driven over a recording
//! transport, alone and inside the SDK's redirect follower (hook `verif_hooks::net::redirect_resolver_*`,
//! stacked exactly as `Context::build_default_*_resolver` documents it: allow-list INSIDE the follower), plus a
//! small sub-space through the real `Context::resolver()` stack over loopback ports nobody listens on.
//!
//! Enumerated exhaustively: every (pattern list of size <= 2, ordered) x every URI of the grammar, sync and async;
//! every redirect chain of <= 3 hops over a URI alphabet x every pattern list of size <= 2 of a reduced pattern set.
//!
//! Oracle (one-directional, as the property states it): the transport saw a request  =>  the INDEPENDENT matcher
//! `kit::net::Pat` (written from the documentation of HostPattern / core.allowed_network_hosts, most permissive
//! reading where the documentation is silent) accepts its URI; a call that is not served ends with UriDisallowed.
//!
//! Space 4 drives the SDK-BUILT stacks (`Context::resolver()` over ureq, `Context::resolver_async()` over reqwest on a tokio
//! runtime) with `core.allowed_network_hosts` set through redirect chains of length <= 2: two harness-owned loopback
//! HTTP/1.1 responders play the chain; Locations are /etc/hosts aliases of 127.0.0.1 (they pass the name-based SSRF
//! filter, so off-list hops are observable at a responder), an internal literal, an unresolvable name and an unreachable
//! public address. Oracle: nothing is observed at a responder for a URI the matcher rejects, and a call that stops at a
//! URI the matcher rejects stops with UriDisallowed (not a DNS/connect error, not a stall).
//!
//! Mutants caught (tools/mutant_run.sh D <patch> C26 quick):
//!   C26-allowlist-outside-redirect-follower.diff  (context.rs nests RestrictedResolver(RedirectResolver(client)): hops bypass the list;
//!                                                  independently seeded, missed before space 4 existed)
//!   C26-wildcard-no-dot-boundary.diff  (wildcard match without the '.' boundary test)
//!   C26-port-ignored.diff              (port comparison dropped)

use std::sync::Arc;

use c2pa::http::{
    restricted::{HostPattern, RestrictedResolver},
    AsyncHttpResolver, HttpResolverError, SyncHttpResolver,
};
use c2pa::verif_hooks::net as hooks;
use kit::{
    net::{self, Answer, Pat, Transport},
    par, Run,
};
use serde_json::{json, Value};

// ---------------------------------------------------------------------------------------------
// grammars
// ---------------------------------------------------------------------------------------------

fn hosts(thorough: bool) -> Vec<&'static str> {
    let mut v = vec![
        "a.com",
        "A.CoM",
        "sub.a.com",
        "xa.com",
        "a.com.",
        "a.com.evil.org",
        "evil.org",
        ".a.com",
        "1.2.3.4",
        "[::1]",
        "xn--bcher-kva.example",
    ];
    if thorough {
        v.extend(["x.sub.a.com", "sub.A.com.", "a.comx", "1.2.3.4.5", "[::ffff:1.2.3.4]", "com"]);
    }
    v
}

fn uris(thorough: bool) -> Vec<String> {
    let mut v = vec![];
    for scheme in ["http", "https"] {
        for userinfo in ["", "a.com@", "a.com:80@"] {
            for host in hosts(thorough) {
                for port in ["", ":80", ":443", ":8080"] {
                    if userinfo == "a.com:80@" && !(host == "evil.org" || host == "a.com") {
                        continue; // userinfo-with-port only on two hosts
                    }
                    v.push(format!("{scheme}://{userinfo}{host}{port}/m?x=1"));
                }
            }
        }
    }
    // authority-form (scheme-less) URIs, as used by the SDK's own tests
    for h in ["a.com", "sub.a.com", "a.com:8080", "evil.org", "A.COM:443"] {
        v.push(h.to_string());
    }
    // scheme in upper case, empty port
    v.push("HTTPS://a.com/m".into());
    v.push("http://a.com:/m".into());
    v.push("http://a.com:0080/m".into());
    v
}

fn pattern_texts(thorough: bool) -> Vec<String> {
    let mut v = vec![];
    let hosts: Vec<&str> = if thorough {
        vec!["a.com", "A.COM", "*.a.com", "sub.a.com", "1.2.3.4", "[::1]", "*.com", "evil.org", "*.sub.a.com", "a.com.", ""]
    } else {
        vec!["a.com", "*.a.com", "sub.a.com", "1.2.3.4", "[::1]", "*.com", ""]
    };
    for scheme in ["", "http://", "https://"] {
        for host in &hosts {
            for port in ["", ":80", ":443", ":8080"] {
                if !thorough && port == ":80" && (*host == "1.2.3.4" || *host == "*.com") {
                    continue;
                }
                v.push(format!("{scheme}{host}{port}"));
            }
        }
    }
    // odd but accepted pattern strings
    for odd in ["*", "*.", "a.com/", "https:// ", " a.com", "::1", "ftp://a.com", "HTTPS://A.COM:443", "*a.com", "a.*"] {
        v.push(odd.to_string());
    }
    v.sort();
    v.dedup();
    v
}

/// reduced pattern set for the redirect-chain space
fn chain_patterns(thorough: bool) -> Vec<&'static str> {
    let mut v = vec![
        "a.com", "*.a.com", "https://a.com", "a.com:8080", "http://*.a.com", "evil.org", "1.2.3.4", "https://", "*.com", "http://a.com:8080",
        "sub.a.com", "",
    ];
    if thorough {
        v.extend(["*.org", "http://", "a.com:443", "https://*.a.com:8080", "xa.com", "http://:8080", "[2001:db8::1]", "*.a.com:8080"]);
    }
    v
}

/// Location / start alphabet of the chain space: public hosts only (the SSRF filter is C27's subject), absolute,
/// path-relative and scheme-relative forms.
fn chain_uris(thorough: bool) -> Vec<&'static str> {
    let mut v = vec![
        "http://a.com/m",
        "https://a.com/m",
        "http://sub.a.com/m",
        "http://xa.com/m",
        "https://evil.org/m",
        "http://a.com:8080/m",
        "http://a.com@evil.org/m",
        "http://1.2.3.4/m",
        "/r",
        "//evil.org/m",
    ];
    if thorough {
        v.extend(["https://sub.a.com:8080/m", "http://A.COM:80/m", "http://a.com./m", "//sub.a.com:8080/m", "?q=2", "https://x.y.a.com/m"]);
    }
    v
}

// ---------------------------------------------------------------------------------------------
// stacks
// ---------------------------------------------------------------------------------------------

static CAP: net::KeyCap = net::KeyCap::new(20);

fn host_patterns(list: &[Pat]) -> Vec<HostPattern> {
    list.iter().map(|p| HostPattern::new(&p.text)).collect()
}

#[derive(Debug)]
struct Obs {
    seen: Vec<String>,
    result: Result<u16, &'static str>,
    panic: Option<String>,
}

fn observe(
    t: &Arc<Transport>,
    r: Result<Result<c2pa::http::http::Response<Box<dyn std::io::Read>>, HttpResolverError>, String>,
) -> Obs {
    let seen = t.seen().into_iter().map(|s| s.uri).collect();
    match r {
        Err(p) => Obs { seen, result: Err("panic"), panic: Some(p) },
        Ok(Ok(resp)) => Obs { seen, result: Ok(resp.status().as_u16()), panic: None },
        Ok(Err(e)) => Obs { seen, result: Err(net::err_class(&e)), panic: None },
    }
}

/// RestrictedResolver alone.
fn run_direct(list: &[Pat], uri: &str, is_async: bool) -> Option<Obs> {
    let t = Transport::new(|_, _| Answer::ok());
    let res = RestrictedResolver::with_allowed_hosts(t.clone(), host_patterns(list));
    let req = net::request("GET", uri, &[], vec![])?;
    let r = par::guard(|| {
        if is_async {
            net::block_on(res.http_resolve_async(req))
        } else {
            res.http_resolve(req)
        }
    });
    Some(observe(&t, r))
}

/// The documented default stack: RedirectResolver(RestrictedResolver(transport)). `locs[i]` is the Location served
/// for the i-th request; after the last one the transport answers 200.
fn run_chain(list: &[Pat], start: &str, locs: &[&str], is_async: bool) -> Option<Obs> {
    let locs_owned: Vec<String> = locs.iter().map(|s| s.to_string()).collect();
    let t = Transport::new(move |i, _| match locs_owned.get(i) {
        Some(l) => Answer::redirect(302, l),
        None => Answer::ok(),
    });
    let mut restricted = RestrictedResolver::new(t.clone());
    restricted.set_allowed_hosts(Some(host_patterns(list)));
    let req = net::request("GET", start, &[], vec![])?;
    let r = if is_async {
        let stack = hooks::redirect_resolver_async(restricted, true);
        par::guard(|| net::block_on(stack.http_resolve_async(req)))
    } else {
        let stack = hooks::redirect_resolver_sync(restricted, true);
        par::guard(|| stack.http_resolve(req))
    };
    Some(observe(&t, r))
}

// ---------------------------------------------------------------------------------------------
// oracle
// ---------------------------------------------------------------------------------------------

/// Judge one observation. `expect_requests` = number of requests a fully served call makes.
fn judge(run: &Run, stack: &str, list: &[Pat], obs: &Obs, case: &Value) -> bool {
    let owned = list;
    let mut clean = true;
    if let Some(p) = &obs.panic {
        CAP.violation(run, format!("panic stack={stack}"), || format!("panic: {p}"), || case.clone());
        return false;
    }
    for (k, u) in obs.seen.iter().enumerate() {
        let verdict = match net::split_uri(u) {
            Some(parts) => net::list_accepts(owned, &parts),
            None => Err(("no-authority".to_string(), "none".to_string())),
        };
        if let Err((mut fail, mut shape)) = verdict {
            clean = false;
            // attribution only (never the verdict): which configured pattern does the implementation itself accept this URI under?
            if let (Ok(parsed), Some(parts)) = (u.parse::<c2pa::http::http::Uri>(), net::split_uri(u)) {
                if let Some(culprit) = owned.iter().find(|p| HostPattern::new(&p.text).matches(&parsed)) {
                    if let Err(f) = culprit.accepts(&parts) {
                        fail = f.join("+");
                        shape = culprit.shape();
                    }
                }
            }
            CAP.violation(run, format!("passed-unmatched fail={fail} shape={shape} stack={stack} hop={}", if k == 0 { "initial" } else { "redirect" }), || format!(
                    "request #{k} to {u} reached the transport although no pattern of {:?} matches it under the documented rules ({fail} of the closest pattern, shape {shape})",
                    list.iter().map(|p| p.text.as_str()).collect::<Vec<_>>()
                ), || case.clone());
        }
    }
    match obs.result {
        Ok(_) => {}
        Err("UriDisallowed") => {}
        Err(other) => {
            clean = false;
            CAP.violation(run, format!("refused-with-wrong-error err={other} stack={stack}"), || format!("call ended with {other} instead of being served or refused with UriDisallowed; transport saw {:?}", obs.seen), || case.clone());
        }
    }
    clean
}

fn lists_up_to_2(n: usize) -> Vec<Vec<usize>> {
    let mut v = vec![vec![]];
    for i in 0..n {
        v.push(vec![i]);
    }
    for i in 0..n {
        for j in 0..n {
            if i != j {
                v.push(vec![i, j]);
            }
        }
    }
    v
}

pub fn run(run: &Run, replay: Option<&Value>) {
    run.rule(
        "state = distinct (ordered pattern list of size<=2, start URI, served Location chain, sync|async) configuration executed on the real \
         resolver stack; transition = one request attempt (served by the transport or refused). non-trivial = configurations in which at \
         least one pattern of a non-empty list matches some but not all of the URIs involved (so acceptance and refusal both depend on the \
         matcher), identified by (list, uri/chain).",
    );
    run.assume("the HTTP client below the allow-list is replaced by a recording transport; URI parsing is the `http` crate's (trusted base)");
    run.assume("redirect space: the stack is composed as Context::build_default_*_resolver documents it (RedirectResolver over RestrictedResolver) through the hook; the real Context stack is additionally driven over closed loopback ports (sync)");
    let thorough = run.tier.is_thorough();

    if let Some(c) = replay {
        replay_case(run, c);
        return;
    }

    // ---- determinism ------------------------------------------------------------------------
    {
        let p = Pat::parse("*.a.com");
        let a = run_direct(std::slice::from_ref(&p), "http://sub.a.com/m", false).map(|o| format!("{o:?}"));
        let b = run_direct(std::slice::from_ref(&p), "http://sub.a.com/m", false).map(|o| format!("{o:?}"));
        if a != b || a.is_none() {
            kit::ev::machinery("C26: baseline case is not deterministic / not constructible");
        }
        // the seam is live: an allowed URI is served, a foreign one is refused
        let o = run_direct(std::slice::from_ref(&p), "http://sub.a.com/m", false).unwrap();
        let o2 = run_direct(std::slice::from_ref(&p), "http://evil.org/m", false).unwrap();
        if o.seen.len() != 1 || o.result != Ok(200) || !o2.seen.is_empty() {
            kit::ev::machinery(format!("C26: seam check failed: {o:?} {o2:?}"));
        }
    }

    // ---- space 1: RestrictedResolver x (list <= 2) x URI x {sync, async} ----------------------
    let pats: Vec<Pat> = pattern_texts(thorough).iter().map(|t| Pat::parse(t)).collect();
    let uris = uris(thorough);
    let constructible: Vec<&String> = uris.iter().filter(|u| net::request("GET", u, &[], vec![]).is_some()).collect();
    let lists = lists_up_to_2(pats.len());
    run.extra("direct_patterns", json!(pats.len()));
    run.extra("direct_uris", json!(constructible.len()));
    run.extra("direct_uris_rejected_by_http_crate", json!(uris.len() - constructible.len()));
    let total = lists.len() as u64 * constructible.len() as u64 * 2;
    run.space("RestrictedResolver: ordered pattern lists of size<=2 x URI grammar x {sync,async}", total, true);
    let counters = std::sync::Mutex::new((0u64, 0u64, 0u64, 0u64)); // served, refused, refused-though-model-accepts, nontrivial
    par::for_each(&lists, |li| {
        let list: Vec<Pat> = li.iter().map(|i| pats[*i].clone()).collect();
        let owned = &list;
        // how many URIs of the grammar the model accepts for this list
        let accepted: Vec<bool> = constructible
            .iter()
            .map(|u| net::split_uri(u).map(|p| net::list_accepts(owned, &p).is_ok()).unwrap_or(false))
            .collect();
        let n_acc = accepted.iter().filter(|b| **b).count();
        let discriminating = n_acc > 0 && n_acc < accepted.len();
        let (mut served, mut refused, mut refused_model_accepts) = (0u64, 0u64, 0u64);
        for (ui, u) in constructible.iter().enumerate() {
            for is_async in [false, true] {
                let Some(obs) = run_direct(&list, u, is_async) else { continue };
                let case = json!({"kind":"direct","patterns": li.iter().map(|i| pats[*i].text.clone()).collect::<Vec<_>>(), "uri": u, "async": is_async});
                judge(run, "restricted", &list, &obs, &case);
                if obs.seen.is_empty() {
                    refused += 1;
                    if accepted[ui] {
                        refused_model_accepts += 1;
                    }
                } else {
                    served += 1;
                }
            }
        }
        let n = constructible.len() as u64 * 2;
        run.evals(n);
        run.states(n);
        run.transitions(n);
        run.traces(n);
        let mut g = counters.lock().unwrap();
        g.0 += served;
        g.1 += refused;
        g.2 += refused_model_accepts;
        if discriminating {
            g.3 += n;
        }
    });
    {
        let g = counters.lock().unwrap();
        run.outcome_n("direct:served", g.0);
        run.outcome_n("direct:refused-UriDisallowed", g.1 - g.2);
        run.outcome_n("direct:refused-though-permissive-model-accepts(not demanded)", g.2);
        run.nontrivial_n(g.3);
        if run.violation_count() == 0 && (g.0 == 0 || g.1 == 0) {
            kit::ev::machinery("C26: direct space is vacuous (nothing served or nothing refused)");
        }
    }
    run.sample(json!({"kind":"direct","patterns":["*.a.com"],"uri":"http://sub.a.com/m?x=1","observed": format!("{:?}", run_direct(&[Pat::parse("*.a.com")], "http://sub.a.com/m?x=1", false))}));
    run.sample(json!({"kind":"direct","patterns":["*.a.com"],"uri":"http://xa.com/m?x=1","observed": format!("{:?}", run_direct(&[Pat::parse("*.a.com")], "http://xa.com/m?x=1", false))}));
    run.sample(json!({"kind":"direct","patterns":["https://a.com:8080"],"uri":"https://a.com@evil.org:8080/m?x=1","observed": format!("{:?}", run_direct(&[Pat::parse("https://a.com:8080")], "https://a.com@evil.org:8080/m?x=1", false))}));

    // ---- space 2: redirect chains through RedirectResolver(RestrictedResolver(transport)) -----
    let cpats: Vec<Pat> = chain_patterns(thorough).iter().map(|t| Pat::parse(t)).collect();
    let curis = chain_uris(thorough);
    let starts: Vec<&str> = curis.iter().copied().filter(|u| u.contains("://")).collect();
    let clists = lists_up_to_2(cpats.len());
    // chains: start x Location sequences of length 0..=3
    let mut chains: Vec<(usize, Vec<usize>)> = vec![];
    for s in 0..starts.len() {
        chains.push((s, vec![]));
        for a in 0..curis.len() {
            chains.push((s, vec![a]));
            for b in 0..curis.len() {
                chains.push((s, vec![a, b]));
                for c in 0..curis.len() {
                    chains.push((s, vec![a, b, c]));
                }
            }
        }
    }
    // async doubles only the quick-size core (chains of length <= 2) to keep the budget
    let total2 = clists.len() as u64 * chains.len() as u64;
    run.space("redirect stack: ordered pattern lists of size<=2 (reduced set) x start URI x Location chains of length<=3 (sync) + length<=1 (async)", total2, true);
    run.extra("chain_patterns", json!(cpats.len()));
    run.extra("chain_uri_alphabet", json!(curis.len()));
    let c2 = std::sync::Mutex::new((0u64, 0u64, 0u64, 0u64, 0u64)); // fully served, refused at hop0, refused later, hops, nontrivial
    par::for_each(&clists, |li| {
        let list: Vec<Pat> = li.iter().map(|i| cpats[*i].clone()).collect();
        let (mut full, mut r0, mut rl, mut hops, mut nt) = (0u64, 0u64, 0u64, 0u64, 0u64);
        let mut n = 0u64;
        for (s, seq) in &chains {
            let locs: Vec<&str> = seq.iter().map(|i| curis[*i]).collect();
            for is_async in [false, true] {
                if is_async && seq.len() > 1 {
                    continue;
                }
                let Some(obs) = run_chain(&list, starts[*s], &locs, is_async) else {
                    kit::ev::machinery(format!("C26: chain start {} not constructible", starts[*s]))
                };
                n += 1;
                let case = json!({"kind":"chain","patterns": li.iter().map(|i| cpats[*i].text.clone()).collect::<Vec<_>>(), "start": starts[*s], "locations": locs, "async": is_async});
                judge(run, "redirect+restricted", &list, &obs, &case);
                hops += obs.seen.len() as u64 + if obs.result.is_err() { 1 } else { 0 };
                match (&obs.result, obs.seen.len()) {
                    (Ok(_), k) => {
                        full += 1;
                        if k != locs.len() + 1 {
                            CAP.violation(run, "chain-length-unexpected stack=redirect+restricted", || format!("served call made {k} requests for a chain of {} redirects: {:?}", locs.len(), obs.seen), || case.clone());
                        }
                        if k > 1 {
                            nt += 1;
                        }
                    }
                    (Err(_), 0) => r0 += 1,
                    (Err(_), _) => {
                        rl += 1;
                        nt += 1;
                    }
                }
            }
        }
        run.evals(n);
        run.states(n);
        run.transitions(hops);
        run.traces(n);
        let mut g = c2.lock().unwrap();
        g.0 += full;
        g.1 += r0;
        g.2 += rl;
        g.3 += hops;
        g.4 += nt;
    });
    {
        let g = c2.lock().unwrap();
        run.outcome_n("chain:fully-served", g.0);
        run.outcome_n("chain:initial-request-refused", g.1);
        run.outcome_n("chain:refused-at-a-redirect-hop", g.2);
        run.nontrivial_n(g.4);
        if run.violation_count() == 0 && (g.0 == 0 || g.2 == 0) {
            kit::ev::machinery("C26: chain space is vacuous (no chain fully served or none refused at a hop)");
        }
    }
    {
        let p = Pat::parse("*.a.com");
        let o = run_chain(std::slice::from_ref(&p), "http://sub.a.com/m", &["/r", "//evil.org/m"], false);
        run.sample(json!({"kind":"chain","patterns":["*.a.com"],"start":"http://sub.a.com/m","locations":["/r","//evil.org/m"],"observed": format!("{o:?}")}));
    }

    // ---- space 3: the real Context::resolver() stack over loopback ports nobody listens on -----
    context_stack_space(run);

    // ---- space 4: the real Context::resolver()/resolver_async() stacks through redirect chains -----
    context_redirect_space(run);
    CAP.report(run);
}

/// `Context::resolver()` (default stack, real HTTP client) with `core.allowed_network_hosts` set, requests to
/// 127.0.0.1 / [::1] on ports 1 and 2. A refused connection proves the request passed the allow-list.
fn context_stack_space(run: &Run) {
    // precondition: connecting to the probe ports fails immediately
    let t0 = std::time::Instant::now();
    let probe = std::net::TcpStream::connect_timeout(&"127.0.0.1:1".parse().unwrap(), std::time::Duration::from_secs(2));
    if probe.is_ok() || t0.elapsed().as_millis() > 500 {
        run.assume("context-stack sub-space skipped: 127.0.0.1:1 does not refuse connections immediately in this environment");
        run.space("Context::resolver() default stack over closed loopback ports", 0, true);
        return;
    }
    let pats = ["127.0.0.1:1", "127.0.0.1", "http://127.0.0.1:1", "https://127.0.0.1:1", "127.0.0.1:2", "*.0.0.1:1", "localhost:1", "[::1]:1", ""];
    let uris = [
        "http://127.0.0.1:1/m",
        "https://127.0.0.1:1/m",
        "http://127.0.0.1:2/m",
        "http://[::1]:1/m",
        "http://x@127.0.0.1:1/m",
        "http://127.0.0.1:1@127.0.0.1:2/m",
    ];
    let mut lists: Vec<Option<Vec<usize>>> = vec![None];
    lists.extend(lists_up_to_2(pats.len()).into_iter().map(Some));
    run.space("Context::resolver() default stack (real client) x allowed_network_hosts lists of size<=2 x loopback URIs (sync)", (lists.len() * uris.len()) as u64, true);
    let served = std::sync::atomic::AtomicU64::new(0);
    let refused = std::sync::atomic::AtomicU64::new(0);
    par::for_each(&lists, |l| {
        let texts: Option<Vec<&str>> = l.as_ref().map(|v| v.iter().map(|i| pats[*i]).collect());
        let settings = match &texts {
            None => json!({"core": {}}),
            Some(t) => json!({"core": {"allowed_network_hosts": t}}),
        };
        let ctx = kit::sdk::ctx_with(&[&settings.to_string()]);
        let resolver = ctx.resolver();
        let model: Option<Vec<Pat>> = texts.as_ref().map(|t| t.iter().map(|x| Pat::parse(x)).collect());
        for u in uris {
            let Some(req) = net::request("GET", u, &[], vec![]) else { continue };
            let r = par::guard(|| resolver.http_resolve(req));
            run.eval();
            run.states(1);
            run.transitions(1);
            run.traces(1);
            let case = json!({"kind":"context","allowed_network_hosts": texts, "uri": u});
            let class = match &r {
                Err(_) => "panic",
                Ok(Ok(_)) => "served",
                Ok(Err(e)) => net::err_class(e),
            };
            let model_ok = match &model {
                None => true,
                Some(m) => net::split_uri(u).map(|p| net::list_accepts(m, &p).is_ok()).unwrap_or(false),
            };
            if class == "UriDisallowed" {
                refused.fetch_add(1, std::sync::atomic::Ordering::Relaxed);
            } else {
                // anything else means the request was handed to the HTTP client
                served.fetch_add(1, std::sync::atomic::Ordering::Relaxed);
                run.nontrivial(format!("ctx/{texts:?}/{u}"));
                if !model_ok {
                    CAP.violation(run, "passed-unmatched stack=context-default", || format!("Context::resolver() with allowed_network_hosts={texts:?} handed {u} to the HTTP client (result {class})"), || case);
                }
            }
        }
    });
    run.outcome_n("context:handed-to-client(connection refused)", served.load(std::sync::atomic::Ordering::Relaxed));
    run.outcome_n("context:refused-UriDisallowed", refused.load(std::sync::atomic::Ordering::Relaxed));
}

// ---------------------------------------------------------------------------------------------
// space 4: SDK-built resolver stacks (real ureq / reqwest clients) through redirect chains served by
// harness-owned loopback responders
// ---------------------------------------------------------------------------------------------

struct RealWorld {
    lb: net::Loopback,
    /// /etc/hosts names for 127.0.0.1 that are not spelled like localhost (pass the SDK's name-based SSRF filter)
    aliases: Vec<String>,
}

fn real_world() -> Result<RealWorld, String> {
    let lb = net::Loopback::start(2).ok_or("cannot bind loopback listeners")?;
    let aliases = net::loopback_aliases();
    Ok(RealWorld { lb, aliases })
}

/// `$A` / `$B` = ports of responder 0 / 1, `$N` / `$M` = first / second loopback alias name.
fn subst(w: &RealWorld, t: &str) -> String {
    t.replace("$A", &w.lb.ports[0].to_string())
        .replace("$B", &w.lb.ports[1].to_string())
        .replace("$N", w.aliases.first().map(|s| s.as_str()).unwrap_or("alias-missing.invalid"))
        .replace("$M", w.aliases.get(1).map(|s| s.as_str()).unwrap_or("alias2-missing.invalid"))
}

#[derive(Debug)]
struct RealObs {
    wire: Vec<net::WireSeen>,
    /// Ok(status) | Err(error class); "NoAnswerWithinDeadline" when the call was still running after the deadline
    result: Result<u16, String>,
}

/// One call through the SDK-built stack. Runs in its own thread so that a request that wrongly leaves for the
/// network cannot stall the check (the allow-list refuses in microseconds).
fn run_real(w: &RealWorld, list: &Option<Vec<String>>, start: &str, locs: &[String], is_async: bool) -> RealObs {
    w.lb.arm(locs.iter().map(|l| Some(l.clone())).collect());
    let settings = match list {
        None => json!({"core": {}}),
        Some(t) => json!({"core": {"allowed_network_hosts": t}}),
    };
    let ctx = kit::sdk::ctx_with(&[&settings.to_string()]);
    let req = net::request("GET", start, &[], vec![]).unwrap_or_else(|| kit::ev::machinery(format!("C26: start URI {start} not constructible")));
    let (tx, rx) = std::sync::mpsc::channel();
    std::thread::spawn(move || {
        let r = par::guard(|| {
            if is_async {
                let res = ctx.resolver_async();
                net::block_on_tokio(res.http_resolve_async(req)).map(|r| r.status().as_u16()).map_err(|e| net::err_class(&e).to_string() + &detail(&e))
            } else {
                ctx.resolver().http_resolve(req).map(|r| r.status().as_u16()).map_err(|e| net::err_class(&e).to_string() + &detail(&e))
            }
        });
        let _ = tx.send(r);
    });
    let result = match rx.recv_timeout(std::time::Duration::from_secs(2)) {
        Ok(Ok(r)) => r,
        Ok(Err(p)) => Err(format!("panic: {p}")),
        Err(_) => Err("NoAnswerWithinDeadline".to_string()),
    };
    RealObs { wire: w.lb.log(), result }
}

fn detail(e: &HttpResolverError) -> String {
    match e {
        HttpResolverError::Other(inner) => format!(": {}", inner.to_string().chars().take(120).collect::<String>()),
        _ => String::new(),
    }
}

/// The URI the stack must have been working on when the call ended after `k` observed requests.
fn pending_target(start: &str, locs: &[String], wire: &[net::WireSeen]) -> Option<String> {
    if wire.is_empty() {
        return Some(start.to_string());
    }
    let loc = locs.get(wire.len() - 1)?;
    if loc.starts_with('/') {
        Some(format!("http://{}{}", wire[wire.len() - 1].host, loc))
    } else {
        Some(loc.clone())
    }
}

fn judge_real(run: &Run, w: &RealWorld, list: &Option<Vec<String>>, start: &str, locs: &[String], is_async: bool, obs: &RealObs) {
    let stack = if is_async { "context-default-async" } else { "context-default-sync" };
    let case = || json!({"kind":"real","allowed_network_hosts": list, "start": start, "locations": locs, "async": is_async,
                         "note": "ports and alias names are those of the recorded run; replay re-binds its own listeners and substitutes them"});
    let model: Option<Vec<Pat>> = list.as_ref().map(|t| t.iter().map(|x| Pat::parse(x)).collect());
    let accepts = |uri: &str| match &model {
        None => true,
        Some(m) => net::split_uri(uri).map(|p| net::list_accepts(m, &p).is_ok()).unwrap_or(false),
    };
    // 1. nothing may be OBSERVED at a harness responder for a URI the matcher rejects
    for (k, s) in obs.wire.iter().enumerate() {
        let u = s.uri();
        if !accepts(&u) {
            CAP.violation(
                run,
                format!("passed-unmatched stack={stack} hop={} observed-at=loopback-responder", if k == 0 { "initial" } else { "redirect" }),
                || format!("request #{k} for {u} arrived at harness responder {} although allowed_network_hosts={list:?} does not admit it; chain {:?}", s.listener, obs.wire.iter().map(|x| x.uri()).collect::<Vec<_>>()),
                case,
            );
        }
    }
    // 2. a call that stops at a URI the matcher rejects must stop with UriDisallowed (an internal-address literal may
    //    be refused by the redirect SSRF rule first); anything else means the request went past the allow-list
    if let Err(e) = &obs.result {
        let class = e.split(':').next().unwrap_or("").to_string();
        if let Some(target) = pending_target(start, locs, &obs.wire) {
            if !accepts(&target) {
                let internal = net::uri_host_class(&target).is_some();
                let ok = class == "UriDisallowed" || (class == "RedirectTargetDisallowed" && internal && !obs.wire.is_empty());
                if !ok {
                    let _ = w;
                    CAP.violation(
                        run,
                        format!("refused-with-wrong-error err={class} stack={stack} hop={}", if obs.wire.is_empty() { "initial" } else { "redirect" }),
                        || format!("the call stopped at {target}, which allowed_network_hosts={list:?} does not admit, with `{e}` instead of UriDisallowed: the request was handed to the HTTP client; requests seen by the responders: {:?}", obs.wire.iter().map(|x| x.uri()).collect::<Vec<_>>()),
                        case,
                    );
                }
            }
        }
    }
}

fn real_lists() -> Vec<Option<Vec<&'static str>>> {
    vec![
        None,
        Some(vec![]),
        Some(vec!["127.0.0.1:$A"]),
        Some(vec!["$N:$A"]),
        Some(vec!["http://$N:$A"]),
        Some(vec!["https://$N:$A"]),
        Some(vec!["*.0.0.1:$A"]),
        Some(vec!["127.0.0.1:$A", "$N:$A"]),
        Some(vec!["$N:$A", "$N:$B"]),
        Some(vec!["$N"]),
    ]
}

fn real_locations() -> Vec<&'static str> {
    vec![
        "http://$N:$B/h",            // reachable responder, other port
        "http://$N:$A/h",            // reachable responder, same port, by alias name
        "http://$M:$A/h",            // second alias name
        "/rel",                      // same authority
        "http://127.0.0.1:$B/h",     // internal literal (redirect SSRF rule applies first)
        "http://not-listed.invalid/h", // public-looking name that cannot resolve
        "http://93.184.216.34:9/h",  // public address that cannot be reached from here
    ]
}

fn context_redirect_space(run: &Run) {
    let w = match real_world() {
        Ok(w) => w,
        Err(e) => {
            run.assume(&format!("real-stack redirect sub-space skipped: {e}"));
            run.space("SDK-built resolver stacks through redirect chains served by loopback responders", 0, true);
            return;
        }
    };
    if w.aliases.is_empty() {
        run.assume("no /etc/hosts alias for 127.0.0.1 besides localhost: redirect hops of the real stack can only target unreachable public-looking hosts (judged by the error class), none can be observed at a responder");
    }
    run.extra("real_stack_loopback_aliases", json!(w.aliases));
    // liveness of the seam: without an allow-list a redirect by alias name is followed to the second responder
    if !w.aliases.is_empty() {
        let o = run_real(&w, &None, &subst(&w, "http://127.0.0.1:$A/i"), &[subst(&w, "http://$N:$B/h")], false);
        if o.wire.len() != 2 || o.result != Ok(200) {
            kit::ev::machinery(format!("C26: loopback seam check failed (expected 2 requests and 200): {o:?}"));
        }
        let o2 = run_real(&w, &None, &subst(&w, "http://127.0.0.1:$A/i"), &[subst(&w, "http://$N:$B/h")], true);
        if o2.wire.len() != 2 || o2.result != Ok(200) {
            kit::ev::machinery(format!("C26: loopback seam check (async) failed: {o2:?}"));
        }
    }
    let lists = real_lists();
    let locs = real_locations();
    let starts = ["http://127.0.0.1:$A/i", "http://$N:$A/i"];
    // chains: length 0, every single Location, and every pair whose first hop can be served by a responder
    let mut chains: Vec<Vec<usize>> = vec![vec![]];
    for a in 0..locs.len() {
        chains.push(vec![a]);
    }
    for a in 0..4 {
        for b in 0..locs.len() {
            chains.push(vec![a, b]);
        }
    }
    let mut cases: Vec<(usize, usize, usize, bool)> = vec![];
    for l in 0..lists.len() {
        for s in 0..starts.len() {
            for (c, ch) in chains.iter().enumerate() {
                // without an allow-list (control) hops to the two unreachable public-looking targets legitimately leave for the
                // network; they say nothing about the allow-list and only cost connect time
                if lists[l].is_none() && ch.iter().any(|i| *i >= 5) {
                    continue;
                }
                cases.push((l, s, c, false));
                if ch.len() <= 1 {
                    cases.push((l, s, c, true));
                }
            }
        }
    }
    run.space(
        "SDK-built stacks Context::resolver() [ureq] and resolver_async() [reqwest] x 9 allowed_network_hosts shapes + no list (control, reachable Locations only) x 2 start URIs x redirect chains of length<=2 over 7 Locations (async: length<=1), served by two loopback responders",
        cases.len() as u64,
        true,
    );
    let (mut served, mut refused, mut hops_observed, mut off_list_stops) = (0u64, 0u64, 0u64, 0u64);
    // sequential: the responders share one script
    let mut stalled = 0u32;
    for (l, s, c, is_async) in cases {
        if stalled >= 3 && chains[c].contains(&6) {
            // only reachable on a violating tree: every further call towards the unreachable public address would stall too
            run.cap_hit("real-stack space: calls towards the unreachable public address skipped after 3 of them left for the network and stalled");
            continue;
        }
        let list: Option<Vec<String>> = lists[l].as_ref().map(|v| v.iter().map(|t| subst(&w, t)).collect());
        let start = subst(&w, starts[s]);
        let chain: Vec<String> = chains[c].iter().map(|i| subst(&w, locs[*i])).collect();
        let obs = run_real(&w, &list, &start, &chain, is_async);
        run.eval();
        run.states(1);
        run.transitions(obs.wire.len() as u64 + if obs.result.is_err() { 1 } else { 0 });
        run.traces(1);
        judge_real(run, &w, &list, &start, &chain, is_async, &obs);
        if matches!(&obs.result, Err(e) if e.starts_with("NoAnswerWithinDeadline")) {
            stalled += 1;
        }
        match &obs.result {
            Ok(_) => served += 1,
            Err(_) => refused += 1,
        }
        if obs.wire.len() > 1 {
            hops_observed += 1;
            run.nontrivial(format!("real/{l}/{s}/{c}/{is_async}"));
        } else if obs.result.is_err() && !obs.wire.is_empty() {
            off_list_stops += 1;
            run.nontrivial(format!("real/{l}/{s}/{c}/{is_async}"));
        }
        let cls = match &obs.result {
            Ok(st) => format!("Ok({st})"),
            Err(e) => format!("Err({})", e.split(':').next().unwrap_or("")),
        };
        run.outcome(format!("real:{}:{cls}:requests-observed={}", if is_async { "async" } else { "sync" }, obs.wire.len()));
    }
    run.extra("real_stack", json!({"calls_served": served, "calls_ended_in_error": refused, "calls_with_a_redirect_hop_observed_at_a_responder": hops_observed, "calls_stopped_at_a_redirect_hop": off_list_stops}));
    if run.violation_count() == 0 && (off_list_stops == 0 || (!w.aliases.is_empty() && hops_observed == 0)) {
        kit::ev::machinery("C26: real-stack redirect space is vacuous (no hop observed or none stopped)");
    }
    {
        let list = Some(vec![subst(&w, "127.0.0.1:$A")]);
        let (st, ch) = (subst(&w, "http://127.0.0.1:$A/i"), vec![subst(&w, "http://not-listed.invalid/h")]);
        let o = run_real(&w, &list, &st, &ch, false);
        run.sample(json!({"kind":"real","allowed_network_hosts": list, "start": st, "locations": ch, "observed": format!("{o:?}")}));
    }
}

fn replay_case(run: &Run, c: &Value) {
    run.eval();
    run.states(1);
    run.transitions(1);
    let strs = |v: &Value| -> Vec<String> { v.as_array().map(|a| a.iter().filter_map(|x| x.as_str().map(String::from)).collect()).unwrap_or_default() };
    match c["kind"].as_str() {
        Some("direct") => {
            let pats: Vec<Pat> = strs(&c["patterns"]).iter().map(|t| Pat::parse(t)).collect();
            let list = pats.clone();
            let uri = c["uri"].as_str().unwrap_or("");
            let obs = run_direct(&list, uri, c["async"].as_bool().unwrap_or(false)).unwrap_or_else(|| kit::ev::machinery("replay: URI not constructible"));
            println!("replay direct patterns={:?} uri={uri}: {obs:?}", strs(&c["patterns"]));
            judge(run, "restricted", &list, &obs, c);
        }
        Some("chain") => {
            let pats: Vec<Pat> = strs(&c["patterns"]).iter().map(|t| Pat::parse(t)).collect();
            let list = pats.clone();
            let locs = strs(&c["locations"]);
            let locs: Vec<&str> = locs.iter().map(|s| s.as_str()).collect();
            let start = c["start"].as_str().unwrap_or("");
            let obs = run_chain(&list, start, &locs, c["async"].as_bool().unwrap_or(false)).unwrap_or_else(|| kit::ev::machinery("replay: URI not constructible"));
            println!("replay chain patterns={:?} start={start} locations={locs:?}: {obs:?}", strs(&c["patterns"]));
            judge(run, "redirect+restricted", &list, &obs, c);
        }
        Some("real") => {
            // listeners are re-bound: map the recorded ports / alias names onto the fresh ones by position
            let w = real_world().unwrap_or_else(|e| kit::ev::machinery(format!("replay: {e}")));
            let list: Option<Vec<String>> = if c["allowed_network_hosts"].is_null() { None } else { Some(strs(&c["allowed_network_hosts"])) };
            let start = c["start"].as_str().unwrap_or("").to_string();
            let locs = strs(&c["locations"]);
            // recorded port of responder 0 is the start URI's port; any other loopback port in the case is responder 1
            let port_of = |u: &str| net::split_uri(u).and_then(|p| p.port);
            let old_a = port_of(&start).unwrap_or_default();
            let mut all: Vec<String> = locs.clone();
            all.extend(list.clone().unwrap_or_default());
            let old_b = all.iter().filter_map(|u| net::split_uri(u).and_then(|p| p.port).or_else(|| Pat::parse(u).port)).find(|p| *p != old_a && p.len() >= 4 && p != "8080").unwrap_or_default();
            let remap = |t: &str| {
                let mut t = t.replace(&format!(":{old_a}"), ":$A");
                if !old_b.is_empty() {
                    t = t.replace(&format!(":{old_b}"), ":$B");
                }
                subst(&w, &t)
            };
            let list = list.map(|v| v.iter().map(|t| remap(t)).collect::<Vec<_>>());
            let (start, locs) = (remap(&start), locs.iter().map(|t| remap(t)).collect::<Vec<_>>());
            let is_async = c["async"].as_bool().unwrap_or(false);
            let obs = run_real(&w, &list, &start, &locs, is_async);
            println!("replay real allowed_network_hosts={list:?} start={start} locations={locs:?} async={is_async}: {obs:?}");
            judge_real(run, &w, &list, &start, &locs, is_async, &obs);
        }
        _ => kit::ev::machinery("replay kind not supported; rerun the tier"),
    }
}

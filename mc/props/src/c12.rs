//! C12 — hash-binding layout maps are ordered, disjoint and cover the file.
//!
//! S-inp: `box_map` (hook over AssetBoxHash::get_box_map) for every box-hash capable seed (JPEG incl. restart
//! markers / trailing data / short APP11 / foreign JUMBF, PNG incl. trailing data, GIF incl. extensions and
//! 87a, JPEG XL incl. a foreign jumb box, sidecar), without a manifest and with manifests of several sizes,
//! plus EVERY single-byte mutant (position x value set) of each of these files that the handler still maps.
//! `object_locations` (data-hash regions) for every seed of every writable format with manifests of several
//! sizes.
//! Oracle (property text): entries ordered by offset; pairwise non-overlapping; inside the file; every byte
//! of the file outside the manifest container is covered by a non-manifest entry; no non-manifest entry
//! covers manifest bytes and no manifest ("C2PA") entry covers non-manifest bytes (independent walker);
//! the Cai data-hash region lies inside the file and overlaps no other reported region.
//!
//! Mutants caught (tools/mutant_run.sh A <diff> C12 quick):
//!   C12-gif-no-trailer.diff  (GIF box map omits the trailer byte)  -> VIOLATION (keys "boxmap uncovered at-end fmt=Gif origin=seed asset=gif|gif-ext|gif87a|gif-xmp", not present on the unchanged tree)

use kit::embed::{self, box_map, locations, save};
use kit::walk;
use kit::{assets::Asset, par, Run};
use serde_json::{json, Value};

fn box_hash_seeds() -> Vec<Asset> {
    embed::seeds().into_iter().filter(|a| matches!(embed::kind(a), walk::Kind::Jpeg | walk::Kind::Png | walk::Kind::Gif | walk::Kind::Jxl | walk::Kind::C2pa)).collect()
}

/// Failures of one box map: (class, detail). `container` = manifest container ranges from the independent
/// walker, or None when the walker cannot interpret the (mutated) file.
fn judge_map(file_len: usize, map: &[(String, u64, u64)], container: Option<&[walk::R]>) -> Vec<(String, String)> {
    let mut f = vec![];
    let n = file_len as u64;
    // ordered
    for w in map.windows(2) {
        if w[1].1 < w[0].1 {
            f.push(("unordered".to_string(), format!("entry {}@{} listed before {}@{}", w[0].0, w[0].1, w[1].0, w[1].1)));
            break;
        }
    }
    // within the file
    for (name, s, l) in map {
        if s.checked_add(*l).map(|e| e > n).unwrap_or(true) {
            f.push((format!("outside-file entry={name}"), format!("{name}@{s}+{l} exceeds the file length {n}")));
        }
    }
    // pairwise disjoint
    let mut sorted: Vec<&(String, u64, u64)> = map.iter().filter(|e| e.2 > 0).collect();
    sorted.sort_by_key(|e| e.1);
    for w in sorted.windows(2) {
        if w[0].1 + w[0].2 > w[1].1 {
            f.push((format!("overlap {}+{}", base_name(&w[0].0), base_name(&w[1].0)), format!("{}@{}+{} overlaps {}@{}+{}", w[0].0, w[0].1, w[0].2, w[1].0, w[1].1, w[1].2)));
        }
    }
    // coverage (interval arithmetic)
    let clip = |v: Vec<(u64, u64)>| -> Vec<(u64, u64)> { norm(v.into_iter().map(|(s, e)| (s.min(n), e.min(n))).collect()) };
    let hashed = clip(map.iter().filter(|e| e.0 != "C2PA").map(|e| (e.1, e.1.saturating_add(e.2))).collect());
    let c2pa = clip(map.iter().filter(|e| e.0 == "C2PA").map(|e| (e.1, e.1.saturating_add(e.2))).collect());
    let file = vec![(0u64, n)];
    match container {
        Some(c) => {
            let cont = clip(c.iter().map(|r| (r.start as u64, r.end as u64)).collect());
            let unc = minus(&minus(&file, &cont), &hashed);
            if let Some((s, e)) = unc.first() {
                let hidden = !inter(&[(*s, *e)], &c2pa).is_empty();
                let place = if *e == n { "at-end" } else { "inside" };
                if hidden {
                    f.push(("non-manifest-bytes-under-C2PA-entry".to_string(), format!("bytes {s}..{e} are not part of the manifest container but are only covered by an entry named C2PA (excluded from hashing)")));
                } else {
                    f.push((format!("uncovered {place}"), format!("bytes {s}..{e} (of {file_len}) are outside the manifest container and covered by no entry ({} uncovered run(s))", unc.len())));
                }
            }
            if let Some((s, e)) = inter(&hashed, &cont).first() {
                f.push(("manifest-bytes-under-hashed-entry".to_string(), format!("manifest container bytes {s}..{e} are covered by a non-manifest entry")));
            }
        }
        None => {
            // walker-free part: bytes covered by no entry at all
            let unc = minus(&minus(&file, &hashed), &c2pa);
            if let Some((s, e)) = unc.first() {
                let place = if *e == n { "at-end" } else { "inside" };
                f.push((format!("uncovered {place}"), format!("bytes {s}..{e} (of {file_len}) are covered by no entry at all ({} run(s))", unc.len())));
            }
        }
    }
    f
}

/// sorted, merged, non-empty half-open intervals
fn norm(mut v: Vec<(u64, u64)>) -> Vec<(u64, u64)> {
    v.retain(|(s, e)| s < e);
    v.sort();
    let mut out: Vec<(u64, u64)> = vec![];
    for (s, e) in v {
        match out.last_mut() {
            Some(l) if s <= l.1 => l.1 = l.1.max(e),
            _ => out.push((s, e)),
        }
    }
    out
}
/// a \ b for normalised interval lists
fn minus(a: &[(u64, u64)], b: &[(u64, u64)]) -> Vec<(u64, u64)> {
    let mut out = vec![];
    for &(s, e) in a {
        let mut cur = s;
        for &(bs, be) in b {
            if be <= cur || bs >= e {
                continue;
            }
            if bs > cur {
                out.push((cur, bs));
            }
            cur = cur.max(be);
            if cur >= e {
                break;
            }
        }
        if cur < e {
            out.push((cur, e));
        }
    }
    out
}
fn inter(a: &[(u64, u64)], b: &[(u64, u64)]) -> Vec<(u64, u64)> {
    let mut out = vec![];
    for &(s, e) in a {
        for &(bs, be) in b {
            let (x, y) = (s.max(bs), e.min(be));
            if x < y {
                out.push((x, y));
            }
        }
    }
    out
}

fn base_name(n: &str) -> String {
    // RST0..7 -> RSTn, APP0..15 -> APPn : keeps keys stable
    let t = n.trim_end_matches(|c: char| c.is_ascii_digit());
    if t.len() < n.len() && (t == "RST" || t == "APP") {
        format!("{t}n")
    } else {
        n.to_string()
    }
}

/// `inherited`: failure classes the unmutated file already shows (reported once there, only counted for its mutants).
/// Returns the failure classes found.
fn map_case(run: &Run, a: &Asset, variant: &str, data: &[u8], mutated: Option<(usize, u8)>, inherited: &[String], use_walker: bool) -> Vec<String> {
    run.eval();
    let cj = json!({"part":"boxmap","asset":a.name,"variant":variant,"mutation":mutated.map(|(p,v)| json!([p,v]))});
    let m = match box_map(a.mime, data) {
        None => kit::ev::machinery(format!("C12: {} has no box-hash support", a.name)),
        Some(Err(e)) if e.starts_with("PANIC") => {
            run.outcome("panic");
            embed::report(run, format!("boxmap panic fmt={:?} asset={}", embed::kind(a), a.name), format!("{variant} {mutated:?}: {e}"), cj);
            return vec![];
        }
        Some(Err(e)) => {
            if mutated.is_none() {
                kit::ev::machinery(format!("C12: box map of unmutated seed {} ({variant}) fails: {e}", a.name));
            }
            run.outcome(format!("rejected {e}"));
            return vec![];
        }
        Some(Ok(m)) => m,
    };
    let k = embed::kind(a);
    // the sidecar is its own container whatever its bytes are
    let cont = walk::manifests(k, data).ok().filter(|_| use_walker || k == walk::Kind::C2pa).map(|ms| ms.into_iter().flat_map(|m| m.ranges).collect::<Vec<_>>());
    if mutated.is_none() && cont.is_none() {
        kit::ev::machinery(format!("C12: walker cannot interpret unmutated seed {} ({variant})", a.name));
    }
    // for mutants the walker's view of the container is used only when the walker still parses the file
    let fails = judge_map(data.len(), &m, cont.as_deref());
    if fails.is_empty() {
        run.outcome(if mutated.is_some() { "mutant-map-ok" } else { "map-ok" });
    }
    run.nontrivial(format!("{}/{variant}/{mutated:?}", a.name));
    let classes: Vec<String> = fails.iter().map(|f| f.0.clone()).collect();
    for (c, d) in fails {
        if inherited.contains(&c) {
            run.outcome(format!("mutant inherits from its seed: {c}"));
            continue;
        }
        run.outcome(c.clone());
        let origin = if mutated.is_some() { "mutant" } else { "seed" };
        embed::report(run, format!("boxmap {c} fmt={:?} origin={origin} asset={}", k, a.name), format!("{} {variant} {}: {d}", a.name, mutated.map(|(p, v)| format!("byte {p} := {v:#04x}")).unwrap_or_default()), cj.clone());
    }
    classes
}

fn variants(a: &Asset) -> Vec<(String, Vec<u8>)> {
    let mut v = vec![("bare".to_string(), a.data.clone())];
    for n in [embed::MIN_STORE, 301, 70_001] {
        match save(a.mime, &a.data, &embed::store(n, 1)) {
            Ok(o) => v.push((format!("store{n}"), o)),
            Err(e) => kit::ev::machinery(format!("C12: seed {} rejects a {n}-byte store: {e}", a.name)),
        }
    }
    v
}

fn loc_case(run: &Run, a: &Asset, variant: &str, data: &[u8], has_manifest: bool) {
    run.eval();
    let cj = json!({"part":"locations","asset":a.name,"variant":variant});
    let k = embed::kind(a);
    let locs = match locations(a.mime, data) {
        Ok(l) => l,
        Err(e) => {
            run.outcome("locations-error");
            embed::report(run, format!("locations error fmt={k:?} {}", embed::kind_of_err(&e)), format!("{} {variant}: {e}", a.name), cj);
            return;
        }
    };
    let cai: Vec<_> = locs.iter().filter(|l| l.2 == "Cai").collect();
    if cai.is_empty() {
        run.outcome("no-cai-region-reported");
        return;
    }
    run.nontrivial(format!("loc/{}/{variant}", a.name));
    let mut ok = true;
    for c in &cai {
        let (s, e) = (c.0, c.0 + c.1);
        // without a manifest the handlers report a placeholder in the coordinates of the future file
        if has_manifest && e > data.len() {
            ok = false;
            embed::report(run, format!("locations cai-outside-file fmt={k:?}"), format!("{} {variant}: Cai region {s}..{e}, file has {} bytes", a.name, data.len()), cj.clone());
        }
        for o in locs.iter().filter(|l| l.2 != "Cai" && l.1 > 0) {
            if o.0 < e && s < o.0 + o.1 {
                ok = false;
                embed::report(run, format!("locations cai-overlaps-{} fmt={k:?} manifest={has_manifest}", o.2), format!("{} {variant}: Cai region {s}..{e} overlaps {} region {}..{}", a.name, o.2, o.0, o.0 + o.1), cj.clone());
            }
        }
        if has_manifest {
            if let Ok(ms) = walk::manifests(k, data) {
                // the reported region must not reach into non-manifest bytes
                let outside = (s..e.min(data.len())).find(|p| !ms.iter().any(|m| m.ranges.iter().any(|r| r.start <= *p && *p < r.end)));
                if let Some(p) = outside {
                    ok = false;
                    embed::report(run, format!("locations cai-covers-non-manifest fmt={k:?}"), format!("{} {variant}: Cai region {s}..{e} includes byte {p} which is outside the manifest container", a.name), cj.clone());
                }
            }
        }
    }
    run.outcome(if ok { "locations-ok" } else { "locations-bad" });
}

pub fn run(run: &Run, replay: Option<&Value>) {
    run.rule("box maps: per box-hash seed x {bare, store46, store301, store70001} the unmutated file and every single-byte mutant (every position x value set) that get_box_map still accepts; \
              oracle = ordered, disjoint, inside file, non-manifest entries cover exactly file minus manifest container (container from the independent walker; for mutants the walker is used only when it locates the manifest container exactly where it is in the seed and the mutated byte lies outside it, otherwise 'covered by no entry at all'; a failure class the unmutated file already shows is reported there and only counted for its mutants). \
              data-hash regions: per seed of every writable format x the same variants; Cai region inside the file (when a manifest exists), overlapping no other region and no non-manifest byte. \
              non-trivial = maps / location lists actually returned and judged.");
    run.assume("an entry named C2PA is a manifest entry (excluded from hashing by BoxHash); everything else is hashed");
    run.assume("without a manifest, object_locations reports a placeholder in the coordinates of the file that will exist after embedding, so only mutual non-overlap is judged there");
    if let Some(c) = replay {
        let a = embed::seed(c["asset"].as_str().unwrap_or(""));
        let var = c["variant"].as_str().unwrap_or("bare");
        let mut data = match var.strip_prefix("store").and_then(|n| n.parse::<usize>().ok()) {
            Some(n) => save(a.mime, &a.data, &embed::store(n, 1)).unwrap_or_else(|e| kit::ev::machinery(format!("C12 replay: {e}"))),
            None => a.data.clone(),
        };
        if c["part"] == "locations" {
            loc_case(run, &a, var, &data, var != "bare");
        } else {
            let orig = data.clone();
            let m = c["mutation"].as_array().map(|m| (m[0].as_u64().unwrap_or(0) as usize, m[1].as_u64().unwrap_or(0) as u8));
            if let Some((p, v)) = m {
                data[p] = v;
            }
            println!("box map: {:?}", box_map(a.mime, &data));
            let seed_c: Vec<walk::R> = walk::manifests(embed::kind(&a), &orig).map(|ms| ms.into_iter().flat_map(|x| x.ranges).collect()).unwrap_or_default();
            let same = walk::manifests(embed::kind(&a), &data).map(|ms| ms.into_iter().flat_map(|x| x.ranges).collect::<Vec<_>>() == seed_c).unwrap_or(false);
            let inside = m.map(|(p, _)| seed_c.iter().any(|r| r.start <= p && p < r.end)).unwrap_or(false);
            map_case(run, &a, var, &data, m, &[], same && !inside);
        }
        println!("replay: {} violation(s)", run.violation_count());
        return;
    }
    let bh = box_hash_seeds();
    // determinism
    for a in &bh {
        if box_map(a.mime, &a.data) != box_map(a.mime, &a.data) {
            kit::ev::machinery("C12: nondeterministic box map");
        }
    }
    let thorough = run.tier.is_thorough();
    let mut jobs: Vec<(usize, String, Vec<u8>)> = vec![];
    for (i, a) in bh.iter().enumerate() {
        for (name, data) in variants(a) {
            jobs.push((i, name, data));
        }
    }
    // unmutated
    let mut inherited: Vec<Vec<String>> = vec![];
    for (i, name, data) in &jobs {
        inherited.push(map_case(run, &bh[*i], name, data, None, &[], true));
    }
    // mutants: positions = whole file for files <= 1200 bytes, else first 600 + last 600 bytes (the store padding in
    // the middle is opaque payload; positions are enumerated completely inside these windows)
    let values = |orig: u8, big: bool| -> Vec<u8> {
        let mut v: Vec<u8> = if thorough && !big { (0..=255u8).collect() } else if thorough { vec![0x00, 0x01, 0x02, 0x7F, 0x80, 0xFF, 0xFE, 0xD8, 0xD9, 0xEB, orig.wrapping_add(1), orig.wrapping_sub(1), orig ^ 0x20, orig ^ 0x01, orig ^ 0x80, orig ^ 0xFF] } else { vec![0x00, 0x01, 0x7F, 0x80, 0xFF, orig.wrapping_add(1), orig.wrapping_sub(1), orig ^ 0x20] };
        v.sort();
        v.dedup();
        v.retain(|x| *x != orig);
        v
    };
    let mut mcases: Vec<(usize, usize, u8)> = vec![]; // (job, pos, value)
    // manifest container of each unmutated file (independent walker): a mutation inside it changes what the two
    // sides call "the manifest", so those mutants are judged walker-free (covered by no entry at all)
    let containers: Vec<Vec<walk::R>> = jobs.iter().map(|(i, _, d)| walk::manifests(embed::kind(&bh[*i]), d).map(|m| m.into_iter().flat_map(|x| x.ranges).collect()).unwrap_or_default()).collect();
    for (j, (_, _, data)) in jobs.iter().enumerate() {
        let n = data.len();
        let mut pos: Vec<usize> = if n <= 1200 {
            (0..n).collect()
        } else if thorough {
            (0..600).chain(n - 600..n).collect()
        } else {
            (0..64).chain(n - 64..n).collect()
        };
        if n > 1200 {
            // +-24 bytes around every boundary of the manifest container (segment / chunk / box headers and ends)
            for r in &containers[j] {
                for b in [r.start, r.end] {
                    pos.extend(b.saturating_sub(24)..(b + 24).min(n));
                }
            }
            pos.sort();
            pos.dedup();
        }
        for p in pos {
            for v in values(data[p], n > 1200) {
                mcases.push((j, p, v));
            }
        }
    }
    run.space(&format!("box maps of {} files (box-hash seeds x 4 variants) x every byte position (whole file when <=1200 B; else {} plus +-24 B around every manifest-container boundary) x {}", jobs.len(),
        if thorough { "first+last 600 B" } else { "first+last 64 B" }, if thorough { "all 255 other values (16 values for the files > 1200 B)" } else { "8 values {00,01,7F,80,FF,+1,-1,^20}" }), mcases.len() as u64 + jobs.len() as u64, true);
    par::for_each(&mcases, |(j, p, v)| {
        let (i, name, data) = &jobs[*j];
        let mut d = data.clone();
        d[*p] = *v;
        // the walker's container is used only when the mutation leaves it exactly where it is in the seed
        let same = walk::manifests(embed::kind(&bh[*i]), &d).map(|m| m.into_iter().flat_map(|x| x.ranges).collect::<Vec<_>>() == containers[*j]).unwrap_or(false);
        let inside = containers[*j].iter().any(|r| r.start <= *p && *p < r.end);
        map_case(run, &bh[*i], name, &d, Some((*p, *v)), &inherited[*j], same && !inside);
    });
    // data-hash regions for every format
    let seeds = embed::seeds();
    let mut lj = vec![];
    for a in &seeds {
        for (name, data) in variants(a) {
            lj.push((a.clone(), name, data));
        }
        if thorough {
            for n in embed::quick_lengths().into_iter().filter(|n| n % 7 == 0 || *n > 4096) {
                if let Ok(o) = save(a.mime, &a.data, &embed::store(n, 1)) {
                    lj.push((a.clone(), format!("store{n}"), o));
                }
            }
        }
    }
    run.space("data-hash object locations: every seed of every writable format x {bare + store sizes}", lj.len() as u64, true);
    par::for_each(&lj, |(a, name, data)| loc_case(run, a, name, data, name != "bare"));
    run.sample(json!({"asset":"png-trailing","variant":"store301","mutation":null}));
    run.sample(json!({"asset":"jpeg-rst","variant":"bare","mutation":null}));
    run.sample(json!({"asset":"gif-ext","variant":"store46","mutation":[20, 255]}));
    run.sample(json!({"asset":"jxl-foreign-jumb","variant":"store70001","mutation":null}));
}

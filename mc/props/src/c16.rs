//! C16 — Merkle proofs accept exactly the committed leaves.
//!
//! S-inp, exhaustive: every leaf count n in 1..=64 (quick) / 1..=300 (thorough), every stored row (every `max_proofs` from 0 to
//! one more than the tree height, paired exactly as the SDK pairs them: stored row = layers[min(max_proofs, height)],
//! proof = get_proof_by_index(i, max_proofs)), every leaf index i.  Tree and proofs come from the crate-private
//! `C2PAMerkleTree` (hook re-export), playback is the public `MerkleMap::check_merkle_tree`.
//!
//! Oracle (from the property text):
//!   + the generated proof verifies for leaf i at location i;
//!   - the same leaf hash and proof at EVERY other location j in 0..n+2 is rejected;
//!   - EVERY other leaf's hash (and one value that is no leaf) with the proof of i at location i is rejected;
//!   - every proof with one used element altered is rejected: each byte of each element flipped (quick: first, middle and last
//!     byte), each element removed, each pair of different elements swapped, an element duplicated in front, proof dropped
//!     altogether.  Elements appended after the last one playback reads are not an "altered proof" (nothing they assert is read).
//! Leaves are distinct 32-byte (sha256) / 48 / 64-byte values, already hashed (hash_leaves = false) as in the BMFF flow.
//!
//! Mutants caught (quick tier, patched scratch worktree, /verif/target-mut-C):
//!   /verif/mutants/C16-odd-node-self-hash.diff       generate_tree hashes the unpaired node with itself instead of promoting it
//!       -> "rejected-genuine genuine alg=… row=inner|root" (1595 cases)
//!   /verif/mutants/C16-proof-shortfall-accepted.diff playback treats a missing proof element as "no sibling"
//!       -> "accepted-forgery other-index alg=… row=inner|root" (and proof-element-removed / proof-dropped)

use c2pa::{
    assertions::{MerkleMap, VecByteBuf},
    verif_hooks::{C2PAMerkleTree, MerkleNode},
};
use kit::{par, Run};
use serde_json::{json, Value};
use sha2::{Digest, Sha256};
use std::sync::atomic::{AtomicU64, Ordering};

fn vbb(v: &[Vec<u8>]) -> VecByteBuf {
    fn conv<B: From<Vec<u8>>>(v: &[Vec<u8>]) -> Vec<B> {
        v.iter().map(|x| B::from(x.clone())).collect()
    }
    VecByteBuf(conv(v))
}

fn hash_len(alg: &str) -> usize {
    match alg {
        "sha384" => 48,
        "sha512" => 64,
        _ => 32,
    }
}

/// distinct, deterministic leaf values of the digest length of `alg` (independent of the SDK's hashing)
fn leaf(alg: &str, n: usize, i: usize) -> Vec<u8> {
    let mut out = vec![];
    let mut ctr = 0u32;
    while out.len() < hash_len(alg) {
        let mut h = Sha256::new();
        h.update(b"verif-c16-leaf");
        h.update((n as u64).to_be_bytes());
        h.update((i as u64).to_be_bytes());
        h.update(ctr.to_be_bytes());
        out.extend_from_slice(&h.finalize());
        ctr += 1;
    }
    out.truncate(hash_len(alg));
    out
}

struct Cnt {
    evals: AtomicU64,
    pos: AtomicU64,
    neg_index: AtomicU64,
    neg_leaf: AtomicU64,
    neg_proof: AtomicU64,
    rows: AtomicU64,
    with_proof: AtomicU64,
}

struct Tree {
    alg: &'static str,
    n: usize,
    leaves: Vec<Vec<u8>>,
    tree: C2PAMerkleTree,
}

fn mk_tree(alg: &'static str, n: usize) -> Tree {
    let leaves: Vec<Vec<u8>> = (0..n).map(|i| leaf(alg, n, i)).collect();
    let tree = C2PAMerkleTree::from_leaves(leaves.iter().map(|l| MerkleNode(l.clone())).collect(), alg, false);
    Tree { alg, n, leaves, tree }
}

fn mk_map(t: &Tree, max_proofs: usize) -> (MerkleMap, usize) {
    // exactly the SDK's own pairing (assertions/bmff_hash.rs: "save desired Merkle tree row")
    let row = std::cmp::min(max_proofs, t.tree.layers.len() - 1);
    let hashes: Vec<Vec<u8>> = t.tree.layers[row].iter().map(|m| m.0.clone()).collect();
    (
        MerkleMap {
            unique_id: 1,
            local_id: 1,
            count: t.n,
            alg: Some(t.alg.to_string()),
            init_hash: None,
            hashes: vbb(&hashes),
            fixed_block_size: None,
            variable_block_sizes: None,
        },
        row,
    )
}

/// All checks for one (tree, max_proofs, leaf index). `full_bytes`: flip every byte of every proof element.
fn check_leaf(run: &Run, cnt: &Cnt, t: &Tree, mm: &MerkleMap, row: usize, max_proofs: usize, i: usize, full_bytes: bool, replay: bool) {
    let n = t.n;
    let alg = t.alg;
    let case = |what: &str, detail: Value| json!({"alg": alg, "n": n, "max_proofs": max_proofs, "leaf": i, "check": what, "detail": detail});
    let proof = match par::guard(|| t.tree.get_proof_by_index(i, max_proofs)) {
        Ok(Ok(p)) => p,
        Ok(Err(e)) => {
            run.violation(format!("proof-generation error alg={alg}"), format!("n={n} max_proofs={max_proofs} leaf={i}: {e:?}"), case("generate", json!(null)));
            return;
        }
        Err(p) => {
            run.violation(format!("proof-generation panic alg={alg}"), format!("n={n} max_proofs={max_proofs} leaf={i}: {p}"), case("generate", json!(null)));
            return;
        }
    };
    // the SDK stores "no proof" as None
    let as_opt = |p: &[Vec<u8>]| if p.is_empty() { None } else { Some(vbb(p)) };
    let verify = |hash: &[u8], loc: usize, p: &Option<VecByteBuf>| -> Result<bool, String> { par::guard(|| mm.check_merkle_tree(alg, hash, loc, p)) };
    let mut local = 0u64;
    let mut judge = |class: &AtomicU64, expect: bool, got: Result<bool, String>, what: &str, key_tail: String, detail: Value| {
        local += 1;
        class.fetch_add(1, Ordering::Relaxed);
        if replay {
            println!("  {what} {detail}: expect {expect}, got {got:?}");
        }
        match got {
            Ok(g) if g == expect => {}
            Ok(g) => run.violation(
                format!("{} {what} alg={alg} {key_tail}", if expect { "rejected-genuine" } else { "accepted-forgery" }),
                format!("n={n} stored row {row} (max_proofs={max_proofs}) leaf {i}: {what} {detail} verified={g}, expected {expect}"),
                case(what, detail),
            ),
            Err(p) => run.violation(format!("panic {what} alg={alg}"), format!("n={n} max_proofs={max_proofs} leaf {i}: {what} {detail}: {p}"), case(what, detail)),
        }
    };
    let p_opt = as_opt(&proof);
    let tail = format!("row={}", if row == 0 { "leaves" } else if row == t.tree.layers.len() - 1 { "root" } else { "inner" });

    // + genuine
    judge(&cnt.pos, true, verify(&t.leaves[i], i, &p_opt), "genuine", tail.clone(), json!(null));
    if !proof.is_empty() {
        cnt.with_proof.fetch_add(1, Ordering::Relaxed);
    }
    // - every other location
    for j in 0..n + 2 {
        if j != i {
            judge(&cnt.neg_index, false, verify(&t.leaves[i], j, &p_opt), "other-index", tail.clone(), json!({"location": j}));
        }
    }
    // - every other leaf value, and a value that is no leaf at all
    for k in 0..n {
        if k != i {
            judge(&cnt.neg_leaf, false, verify(&t.leaves[k], i, &p_opt), "other-leaf", tail.clone(), json!({"leaf_value_of": k}));
        }
    }
    let alien = leaf(alg, n + 1000, i);
    judge(&cnt.neg_leaf, false, verify(&alien, i, &p_opt), "other-leaf", tail.clone(), json!({"leaf_value_of": "alien"}));
    let mut flipped = t.leaves[i].clone();
    flipped[0] ^= 1;
    judge(&cnt.neg_leaf, false, verify(&flipped, i, &p_opt), "other-leaf", tail.clone(), json!({"leaf_value_of": "own, first bit flipped"}));

    // - altered proofs
    if !proof.is_empty() {
        let hl = proof[0].len();
        let positions: Vec<usize> = if full_bytes { (0..hl).collect() } else { vec![0, hl / 2, hl - 1] };
        for e in 0..proof.len() {
            for &b in &positions {
                let mut p = proof.clone();
                p[e][b] ^= 0x01;
                judge(&cnt.neg_proof, false, verify(&t.leaves[i], i, &Some(vbb(&p))), "proof-byte-flipped", tail.clone(), json!({"element": e, "byte": b}));
            }
            let mut p = proof.clone();
            p.remove(e);
            judge(&cnt.neg_proof, false, verify(&t.leaves[i], i, &as_opt(&p)), "proof-element-removed", tail.clone(), json!({"element": e}));
            if !p.is_empty() {
                // also when the caller passes Some([]) rather than None
                judge(&cnt.neg_proof, false, verify(&t.leaves[i], i, &Some(vbb(&p))), "proof-element-removed", tail.clone(), json!({"element": e, "as": "Some"}));
            }
            for f in e + 1..proof.len() {
                if proof[e] != proof[f] {
                    let mut p = proof.clone();
                    p.swap(e, f);
                    judge(&cnt.neg_proof, false, verify(&t.leaves[i], i, &Some(vbb(&p))), "proof-elements-swapped", tail.clone(), json!({"elements": [e, f]}));
                }
            }
        }
        let mut p = proof.clone();
        p.insert(0, proof[0].clone());
        // with a single-element proof the duplicate is a trailing element playback never reads
        if proof.len() > 1 && proof[0] != proof[1] {
            judge(&cnt.neg_proof, false, verify(&t.leaves[i], i, &Some(vbb(&p))), "proof-element-duplicated-in-front", tail.clone(), json!(null));
        }
        judge(&cnt.neg_proof, false, verify(&t.leaves[i], i, &None), "proof-dropped", tail.clone(), json!(null));
        judge(&cnt.neg_proof, false, verify(&t.leaves[i], i, &Some(vbb(&[]))), "proof-dropped", tail.clone(), json!({"as": "Some([])"}));
    }
    cnt.evals.fetch_add(local, Ordering::Relaxed);
}

pub fn run(run: &Run, replay: Option<&Value>) {
    run.rule(
        "for every leaf count n, every max_proofs in 0..=height+1 (stored row and proof paired as the SDK pairs them) and every leaf index: the genuine \
         proof must verify; every other location, every other leaf value and every single-element alteration of the proof must be rejected. \
         non-trivial = (n, max_proofs, leaf) triples whose proof is non-empty (playback actually hashes); each triple is enumerated once.",
    );
    run.assume("leaves are distinct digest-length values (pre-hashed leaves, as Store/BmffHash pass them); sha256 over the full range, sha384/sha512 over n <= 33");
    run.assume("elements appended after the last proof element playback reads are not counted as an altered proof");
    let cnt = Cnt {
        evals: AtomicU64::new(0),
        pos: AtomicU64::new(0),
        neg_index: AtomicU64::new(0),
        neg_leaf: AtomicU64::new(0),
        neg_proof: AtomicU64::new(0),
        rows: AtomicU64::new(0),
        with_proof: AtomicU64::new(0),
    };

    if let Some(c) = replay {
        let alg: &'static str = match c["alg"].as_str() {
            Some("sha384") => "sha384",
            Some("sha512") => "sha512",
            _ => "sha256",
        };
        let n = c["n"].as_u64().unwrap_or(1) as usize;
        let mp = c["max_proofs"].as_u64().unwrap_or(0) as usize;
        let i = c["leaf"].as_u64().unwrap_or(0) as usize;
        let t = mk_tree(alg, n);
        let (mm, row) = mk_map(&t, mp);
        println!("replay alg={alg} n={n} max_proofs={mp} (stored row {row} of {} layers, {} hashes) leaf={i}: proof = {:?} elements", t.tree.layers.len(), mm.hashes.len(),
            t.tree.get_proof_by_index(i, mp).map(|p| p.len()));
        check_leaf(run, &cnt, &t, &mm, row, mp, i, true, true);
        run.evals(cnt.evals.load(Ordering::Relaxed));
        return;
    }

    // determinism: the same tree twice
    {
        let a = mk_tree("sha256", 11);
        let b = mk_tree("sha256", 11);
        if a.tree.layers.iter().map(|l| l.len()).collect::<Vec<_>>() != b.tree.layers.iter().map(|l| l.len()).collect::<Vec<_>>() || a.tree.get_root() != b.tree.get_root() {
            kit::ev::machinery("C16: tree construction is not deterministic");
        }
        if a.tree.layers[0].iter().map(|m| m.0.clone()).collect::<Vec<_>>() != a.leaves {
            kit::ev::machinery("C16: layer 0 is not the leaf row the harness handed in");
        }
    }

    let nmax = run.tier.pick(64usize, 300usize);
    let mut jobs: Vec<(&'static str, usize, usize)> = vec![];
    for n in 1..=nmax {
        let height = C2PAMerkleTree::to_layout(n).len() - 1;
        for mp in 0..=height + 1 {
            jobs.push(("sha256", n, mp));
        }
    }
    for alg in ["sha384", "sha512"] {
        for n in 1..=33usize {
            let height = C2PAMerkleTree::to_layout(n).len() - 1;
            for mp in 0..=height + 1 {
                jobs.push((alg, n, mp));
            }
        }
    }
    // big trees first so the tail of the parallel loop is short
    jobs.sort_by_key(|j| std::cmp::Reverse(j.1));
    let full_bytes_upto = run.tier.pick(24usize, 64usize);
    let leaf_cases: u64 = jobs.iter().map(|j| j.1 as u64).sum();
    run.space(&format!("(alg, n, max_proofs, leaf): sha256 n in 1..={nmax}, sha384/sha512 n in 1..=33, max_proofs in 0..=height+1, every leaf"), leaf_cases, true);
    par::for_each(&jobs, |(alg, n, mp)| {
        let t = mk_tree(alg, *n);
        if t.tree.layers.len() != C2PAMerkleTree::to_layout(*n).len() || t.tree.layers.iter().map(|l| l.len()).collect::<Vec<_>>() != C2PAMerkleTree::to_layout(*n) {
            run.violation(format!("layout-mismatch alg={alg}"), format!("n={n}: to_layout {:?} vs generated layers {:?}", C2PAMerkleTree::to_layout(*n), t.tree.layers.iter().map(|l| l.len()).collect::<Vec<_>>()), json!({"alg": alg, "n": n, "max_proofs": mp, "leaf": 0}));
            return;
        }
        let (mm, row) = mk_map(&t, *mp);
        cnt.rows.fetch_add(1, Ordering::Relaxed);
        for i in 0..*n {
            check_leaf(run, &cnt, &t, &mm, row, *mp, i, *n <= full_bytes_upto, false);
        }
    });
    run.evals(cnt.evals.load(Ordering::Relaxed));
    run.nontrivial_n(cnt.with_proof.load(Ordering::Relaxed));
    run.outcome_n("genuine proof checked", cnt.pos.load(Ordering::Relaxed));
    run.outcome_n("other location rejected?", cnt.neg_index.load(Ordering::Relaxed));
    run.outcome_n("other leaf value rejected?", cnt.neg_leaf.load(Ordering::Relaxed));
    run.outcome_n("altered proof rejected?", cnt.neg_proof.load(Ordering::Relaxed));
    run.extra("trees_times_rows", json!(cnt.rows.load(Ordering::Relaxed)));
    run.extra("every_proof_byte_flipped_for_n_upto", json!(full_bytes_upto));
    for (n, mp, i) in [(5usize, 1usize, 4usize), (7, 3, 6), (64, 2, 63)] {
        if n <= nmax {
            let t = mk_tree("sha256", n);
            let (mm, row) = mk_map(&t, mp);
            let p = t.tree.get_proof_by_index(i, mp).map(|p| p.len()).unwrap_or(0);
            run.sample(json!({"n": n, "layout": C2PAMerkleTree::to_layout(n), "max_proofs": mp, "stored_row": row, "stored_hashes": mm.hashes.len(), "leaf": i, "proof_elements": p,
                "verifies": mm.check_merkle_tree("sha256", &t.leaves[i], i, &(if p == 0 { None } else { Some(vbb(&t.tree.get_proof_by_index(i, mp).unwrap())) }))}));
        }
    }
}

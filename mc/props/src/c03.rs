//! C03 — signing round trip: signed output validates and reports what was signed.
//! S-inp over configurations: format x signing alg x claim hash alg x {compressed} x {claim v1,v2} x
//! {embedded, sidecar, remote+embedded} x definitions from kit::defs (small-scope generator).
//! The sub-products enumerated are named in the evidence (`spaces`); nothing is sampled.
//!
//! Mutants caught (tools/mutant_run.sh H <diff> C03 quick; each adds a key class that never occurs on the unchanged tree):
//!   /verif/mutants/C03-empty-title-not-serialised.diff (independently seeded, first MISSED; led to the boundary-value leg)
//!       -> `boundary signed-but-unreadable kind=ClaimDecoding field=title value=empty v=*`
//!   /verif/mutants/C03-title-only-in-v2-claims.diff  -> `title asset=*` (19 cases, sub-product B, claim v1)
//!   /verif/mutants/C03-jpeg-segment-65535.diff       -> `sign-panic mode=embedded asset=jpeg*` (definitions with >= 64 KiB payloads)

use c2pa::{Builder, BuilderIntent, DigitalSourceType, Reader};
use kit::{
    assets,
    defs::{self, Def, Kind},
    par, sdk, Run,
};
use serde_json::{json, Value};
use std::io::Cursor;

pub const REMOTE_URL: &str = "https://verif.invalid/manifests/m.c2pa";

#[derive(Clone, Debug)]
pub struct Case {
    pub asset: String,
    pub alg: String,
    pub hash: String,
    pub compress: bool,
    pub ver: u8,
    /// "embedded" | "sidecar" | "remote"
    pub mode: String,
    pub trust: bool,
    pub def: Def,
    /// signer fault (kit::defs::FaultySigner); always 0 in C03 itself, enumerated by C40
    pub fault: u8,
}

impl Case {
    pub fn base(asset: &str) -> Case {
        Case { asset: asset.into(), alg: "ed25519".into(), hash: "sha256".into(), compress: false, ver: 2, mode: "embedded".into(), trust: false, def: Def::rich(), fault: 0 }
    }
    pub fn id(&self) -> String {
        format!("{} {} {} c={} v={} {} trust={} [{}]", self.asset, self.alg, self.hash, self.compress as u8, self.ver, self.mode, self.trust as u8, self.def.id())
    }
    pub fn to_json(&self) -> Value {
        json!({"asset": self.asset, "alg": self.alg, "hash": self.hash, "compress": self.compress, "ver": self.ver, "mode": self.mode, "trust": self.trust, "def": self.def.to_json(), "fault": self.fault})
    }
    pub fn from_json(v: &Value) -> Case {
        Case {
            asset: v["asset"].as_str().unwrap_or("jpeg").into(),
            alg: v["alg"].as_str().unwrap_or("ed25519").into(),
            hash: v["hash"].as_str().unwrap_or("sha256").into(),
            compress: v["compress"].as_bool().unwrap_or(false),
            ver: v["ver"].as_u64().unwrap_or(2) as u8,
            mode: v["mode"].as_str().unwrap_or("embedded").into(),
            trust: v["trust"].as_bool().unwrap_or(false),
            def: Def::from_json(&v["def"]),
            fault: v["fault"].as_u64().unwrap_or(0) as u8,
        }
    }
    pub fn settings(&self) -> Vec<String> {
        let mut v = vec![];
        if self.compress {
            v.push(r#"{"core":{"prefer_compress_manifests":true}}"#.to_string());
        }
        if self.trust {
            v.push(trust_settings());
        }
        v
    }
    pub fn ctx(&self) -> c2pa::Context {
        let s = self.settings();
        let r: Vec<&str> = s.iter().map(|x| x.as_str()).collect();
        sdk::ctx_with(&r)
    }
}

pub fn trust_settings() -> String {
    let anchors = String::from_utf8_lossy(&sdk::fixture("certs/trust/test_cert_root_bundle.pem")).to_string();
    let cfg = String::from_utf8_lossy(&sdk::fixture("certs/trust/store.cfg")).to_string();
    json!({"trust": {"trust_anchors": anchors, "trust_config": cfg}}).to_string()
}

/// What happened, in a form two flavours (sync/async) can be compared on.
pub struct Outcome {
    /// short class for the outcome histogram
    pub class: String,
    /// (key, what) of oracle failures
    pub failures: Vec<(String, String)>,
    /// reached the read-back comparison
    pub compared: bool,
}

/// Everything that the signing side does, sync flavour. Returns (asset bytes, manifest bytes).
pub fn build_and_sign(c: &Case, data: &[u8], mime: &str) -> Result<c2pa::Result<(Vec<u8>, Vec<u8>)>, String> {
    par::guard(|| {
        let signer = defs::FaultySigner { inner: sdk::fixture_signer(&c.alg), fault: c.fault };
        let mut b = Builder::from_context(c.ctx()).with_definition(c.def.definition(c.ver, Some(&c.hash)))?;
        b.set_intent(BuilderIntent::Create(DigitalSourceType::DigitalCapture));
        c.def.apply(&mut b, c.ver)?;
        match c.mode.as_str() {
            "sidecar" => {
                b.set_no_embed(true);
            }
            "remote" => {
                b.set_remote_url(REMOTE_URL);
            }
            _ => {}
        }
        let mut dst = Cursor::new(Vec::new());
        let manifest = b.sign(&signer, mime, &mut Cursor::new(data), &mut dst)?;
        Ok((dst.into_inner(), manifest))
    })
}

pub fn read_back(c: &Case, mime: &str, out: &[u8], manifest: &[u8]) -> Result<c2pa::Result<Reader>, String> {
    par::guard(|| {
        let rd = Reader::from_context(c.ctx());
        if c.mode == "sidecar" {
            rd.with_manifest_data_and_stream(manifest, mime, Cursor::new(out))
        } else {
            rd.with_stream(mime, Cursor::new(out))
        }
    })
}

fn short(s: &str) -> String {
    if s.chars().count() > 40 {
        format!("{}..({} chars)", s.chars().take(32).collect::<String>(), s.chars().count())
    } else {
        s.to_string()
    }
}

/// The oracle on the reported active manifest (DESIGN.md C03). Pure function of the report JSON + resources.
pub fn judge_report(c: &Case, mime: &str, rd: &Reader, failures: &mut Vec<(String, String)>) {
    let j: Value = serde_json::from_str(&rd.json()).unwrap_or(Value::Null);
    if std::env::var("VERIF_DUMP").is_ok() {
        eprintln!("{}", rd.json());
    }
    let state = sdk::state_name(rd.validation_state());
    let want = if c.trust { "Trusted" } else { "Valid" };
    if state != want {
        failures.push((format!("state want={want} got={state} mode={} v={} c={}", c.mode, c.ver, c.compress as u8),
            format!("read back state {state}, codes {:?}", kit::canon::codes(rd).iter().filter(|x| x.contains("/failure")).collect::<Vec<_>>())));
    }
    let Some(label) = j["active_manifest"].as_str() else {
        failures.push(("no-active-manifest".into(), "report has no active manifest".into()));
        return;
    };
    let m = &j["manifests"][label];
    // title / format / claim generator
    if m["title"].as_str() != Some(defs::TITLE) {
        failures.push(("title".into(), format!("reported title {:?}", m["title"])));
    }
    // claim v2 has no format field (dc:format was removed from the claim); when a format is reported it must be the asset's
    let fmt_ok = match m["format"].as_str() { Some(f) => f == mime, None => c.ver >= 2 };
    if !fmt_ok {
        failures.push((format!("format want={mime} v={}", c.ver), format!("reported format {:?}", m["format"])));
    }
    let cgi = &m["claim_generator_info"][0];
    if cgi["name"].as_str() != Some(defs::GEN_NAME) || cgi["version"].as_str() != Some(defs::GEN_VERSION) {
        failures.push(("claim-generator-info".into(), format!("reported {}", cgi)));
    }
    // redactions: none supplied
    if !(m["redactions"].is_null() || m["redactions"].as_array().map(|a| a.is_empty()).unwrap_or(false)) {
        failures.push(("redactions".into(), format!("reported redactions {} although none were supplied", m["redactions"])));
    }
    // assertions (through the API the property names: Reader::active_manifest().assertions())
    let empty = vec![];
    let reported: Vec<Value> = rd
        .active_manifest()
        .map(|am| {
            am.assertions()
                .iter()
                .map(|a| {
                    json!({"label": a.label(), "instance": a.instance(), "data": a.value().ok().cloned().unwrap_or(Value::Null),
                           "kind": if matches!(a.kind(), c2pa::ManifestAssertionKind::Json) { "Json" } else { "Cbor" }})
                })
                .collect()
        })
        .unwrap_or_default();
    let reported = &reported;
    let supplied = c.def.user_assertions();
    for (label, kind, data) in &supplied {
        let hits: Vec<&Value> = reported.iter().filter(|a| a["label"].as_str() == Some(label.as_str())).collect();
        let lk = short(label);
        match hits.len() {
            0 => {
                let near: Vec<String> = reported.iter().filter_map(|a| a["label"].as_str()).filter(|l| l.starts_with("org.verif")).map(short).collect();
                failures.push((format!("assertion-missing label={lk}"), format!("supplied label not reported; org.verif labels reported: {near:?}")));
            }
            1 => {
                if hits[0]["data"] != *data {
                    let d = crate::c22::first_diff(data, &hits[0]["data"], "").unwrap_or_default();
                    let at: String = d.split(|ch| ch == ' ' || ch == ':').next().unwrap_or("").to_string();
                    failures.push((format!("assertion-data label={lk} kind={kind:?} at={at}"), format!("reported data differs from supplied: {}", short(&d))));
                }
                let is_json = hits[0]["kind"].as_str() == Some("Json");
                if is_json != (*kind == Kind::Json) {
                    failures.push((format!("assertion-kind label={lk} kind={kind:?}"), format!("reported kind {:?}", hits[0]["kind"])));
                }
            }
            n => failures.push((format!("assertion-duplicated label={lk}"), format!("reported {n} times"))),
        }
    }
    for a in reported {
        let l = a["label"].as_str().unwrap_or("");
        let is_supplied = supplied.iter().any(|(sl, _, _)| sl == l);
        let allowed = ["c2pa.actions", "c2pa.hash.", "c2pa.thumbnail.", "c2pa.ingredient"].iter().any(|p| l.starts_with(p));
        if !is_supplied && !allowed {
            failures.push((format!("assertion-extra label={}", short(l)), "reported assertion that was neither supplied nor documented as added by the SDK".into()));
        }
    }
    // user actions: a subsequence (in order) of the reported actions
    let mut reported_actions: Vec<&Value> = vec![];
    for a in reported {
        if a["label"].as_str().unwrap_or("").starts_with("c2pa.actions") {
            if let Some(list) = a["data"]["actions"].as_array() {
                reported_actions.extend(list.iter());
            }
        }
    }
    let mut pos = 0usize;
    for ua in c.def.user_actions() {
        let found = reported_actions[pos..].iter().position(|ra| ra["action"] == ua["action"] && ra["parameters"]["description"] == ua["parameters"]["description"]);
        match found {
            Some(i) => pos += i + 1,
            None => {
                failures.push((format!("action-missing action={}", ua["action"].as_str().unwrap_or("")),
                    format!("reported actions: {:?}", reported_actions.iter().map(|r| r["action"].as_str().unwrap_or("?")).collect::<Vec<_>>())));
            }
        }
    }
    // ingredients
    let rep_ings = m["ingredients"].as_array().unwrap_or(&empty);
    let sup_ings = c.def.ingredient_inputs(c.ver);
    if rep_ings.len() != sup_ings.len() {
        failures.push((format!("ingredient-count want={} got={}", sup_ings.len(), rep_ings.len()), "number of reported ingredients differs".into()));
    }
    for s in &sup_ings {
        match rep_ings.iter().find(|r| r["title"].as_str() == Some(s.title.as_str())) {
            None => failures.push((format!("ingredient-missing rel={}", s.relationship), format!("ingredient {:?} not reported", s.title))),
            Some(r) => {
                if r["relationship"].as_str() != Some(s.relationship) || r["format"].as_str() != Some(s.mime) {
                    failures.push((format!("ingredient-fields rel={}", s.relationship), format!("reported relationship {:?} format {:?}", r["relationship"], r["format"])));
                }
                if s.signed != r["active_manifest"].is_string() {
                    failures.push((format!("ingredient-manifest rel={} signed={}", s.relationship, s.signed), format!("reported active_manifest {:?}", r["active_manifest"])));
                }
            }
        }
    }
    // thumbnail
    if c.def.thumbnail {
        match m["thumbnail"]["identifier"].as_str() {
            None => failures.push(("thumbnail-missing".into(), "explicit thumbnail not reported".into())),
            Some(id) => {
                if m["thumbnail"]["format"].as_str() != Some("image/png") {
                    failures.push(("thumbnail-format".into(), format!("reported thumbnail format {:?}", m["thumbnail"]["format"])));
                }
                let mut buf = Cursor::new(Vec::new());
                match par::guard(|| rd.resource_to_stream(id, &mut buf)) {
                    Ok(Ok(_)) => {
                        if buf.into_inner() != defs::thumbnail_bytes() {
                            failures.push(("thumbnail-bytes".into(), "reported thumbnail bytes differ from the supplied ones".into()));
                        }
                    }
                    Ok(Err(e)) => failures.push(("thumbnail-unreadable".into(), format!("{e:?}"))),
                    Err(p) => failures.push(("thumbnail-panic".into(), p)),
                }
            }
        }
    } else if m["thumbnail"].is_object() {
        failures.push(("thumbnail-unexpected".into(), "thumbnail reported although none was supplied and auto thumbnails are off".into()));
    }
}

pub fn run_case(c: &Case) -> Outcome {
    let t0 = std::time::Instant::now();
    let o = run_case_inner(c);
    if std::env::var("VERIF_SLOW").is_ok() && t0.elapsed().as_millis() > 100 {
        eprintln!("slow {} ms: {} -> {}", t0.elapsed().as_millis(), c.id(), o.class);
    }
    o
}

fn run_case_inner(c: &Case) -> Outcome {
    let a = assets::by_name(&c.asset);
    let mut failures = vec![];
    let remote_unsupported = c.mode == "remote" && !c2pa::verif_hooks::supports_remote_ref(a.mime);
    let (out, manifest) = match build_and_sign(c, &a.data, a.mime) {
        Err(p) => {
            failures.push((format!("sign-panic mode={}", c.mode), p));
            return Outcome { class: "sign-panic".into(), failures, compared: false };
        }
        Ok(Err(e)) => {
            let k = sdk::err_kind(&e);
            if remote_unsupported {
                return Outcome { class: format!("sign-err-remote-unsupported:{k}"), failures, compared: false };
            }
            failures.push((format!("sign-error kind={k} mode={} v={} c={}", c.mode, c.ver, c.compress as u8), format!("{e:?}")));
            return Outcome { class: format!("sign-err:{k}"), failures, compared: false };
        }
        Ok(Ok(x)) => x,
    };
    let rd = match read_back(c, a.mime, &out, &manifest) {
        Err(p) => {
            failures.push((format!("read-panic mode={}", c.mode), p));
            return Outcome { class: "read-panic".into(), failures, compared: false };
        }
        Ok(Err(e)) => {
            failures.push((format!("read-error kind={} mode={} v={} c={}", sdk::err_kind(&e), c.mode, c.ver, c.compress as u8), format!("{e:?}")));
            return Outcome { class: format!("read-err:{}", sdk::err_kind(&e)), failures, compared: false };
        }
        Ok(Ok(r)) => r,
    };
    judge_report(c, a.mime, &rd, &mut failures);
    let class = if failures.is_empty() { format!("ok:{}", sdk::state_name(rd.validation_state())) } else { "oracle-failure".to_string() };
    Outcome { class, failures, compared: true }
}

static STATS: std::sync::OnceLock<defs::KeyStats> = std::sync::OnceLock::new();

fn execute(run: &Run, name: &str, cases: &[Case]) {
    let stats = STATS.get_or_init(Default::default);
    run.space(name, cases.len() as u64, true);
    let t0 = run.elapsed();
    par::for_each(cases, |c| {
        let o = run_case(c);
        run.eval();
        run.outcome(o.class.clone());
        if o.compared {
            run.nontrivial(c.id());
        }
        for (k, w) in o.failures {
            // key: what fails first, then the asset family and definition-independent discriminators
            stats.violation(run, 6, format!("{k} asset={}", c.asset), format!("{}: {w}", c.id()), c.to_json());
        }
    });
    if std::env::var("VERIF_DEBUG").is_ok() {
        eprintln!("C03 {name}: {} cases in {:.1}s", cases.len(), run.elapsed() - t0);
    }
}


// ------------------------------------------------------------------------------------------------------------
// boundary values for every scalar definition field
// ------------------------------------------------------------------------------------------------------------

pub const B_FIELDS: [&str; 7] = ["title", "generator.name", "generator.version", "vendor", "label", "instance_id", "format"];
pub const B_VALUES: [&str; 7] = ["absent", "empty", "space", "1char", "non-ascii", "255chars", "256chars"];

fn b_value(id: &str) -> Option<String> {
    match id {
        "absent" => None,
        "empty" => Some(String::new()),
        "space" => Some(" ".into()),
        "1char" => Some("x".into()),
        "non-ascii" => Some("\u{fc}\u{2713}\u{65e5}".into()),
        "255chars" => Some("t".repeat(255)),
        _ => Some("t".repeat(256)),
    }
}

#[derive(Clone, Debug)]
pub struct BCase {
    pub asset: String,
    pub ver: u8,
    pub field: String,
    pub value: String,
}
impl BCase {
    pub fn to_json(&self) -> Value {
        json!({"leg": "boundary", "asset": self.asset, "ver": self.ver, "field": self.field, "value": self.value})
    }
    pub fn from_json(v: &Value) -> BCase {
        BCase { asset: v["asset"].as_str().unwrap_or("jpeg").into(), ver: v["ver"].as_u64().unwrap_or(2) as u8, field: v["field"].as_str().unwrap_or("title").into(), value: v["value"].as_str().unwrap_or("empty").into() }
    }
    pub fn id(&self) -> String {
        format!("boundary {} v={} {}={}", self.asset, self.ver, self.field, self.value)
    }
    /// The definition: every field at its ordinary value except the one under test.
    pub fn definition(&self) -> Value {
        let mut d = json!({"title": defs::TITLE, "claim_generator_info": [{"name": defs::GEN_NAME, "version": defs::GEN_VERSION}], "claim_version": self.ver});
        let v = b_value(&self.value);
        let set = |obj: &mut Value, key: &str| match &v {
            Some(x) => obj[key] = json!(x),
            None => {
                if let Some(o) = obj.as_object_mut() {
                    o.remove(key);
                }
            }
        };
        match self.field.as_str() {
            "title" => set(&mut d, "title"),
            "generator.name" => set(&mut d["claim_generator_info"][0], "name"),
            "generator.version" => set(&mut d["claim_generator_info"][0], "version"),
            f => set(&mut d, f),
        }
        d
    }
    /// Is a signing error for this value a violation (the value is plainly a legal one for the field)?
    fn must_sign(&self) -> bool {
        match self.field.as_str() {
            // any title but the empty string (the claim CDDL says tstr .size (1..)); an absent title is legal
            "title" => self.value != "empty",
            // a generator name must be present; "" / " " are plausibly rejected
            "generator.name" => !["absent", "empty", "space"].contains(&self.value.as_str()),
            "generator.version" => !["empty", "space"].contains(&self.value.as_str()),
            // grammar-restricted fields (vendor / label / instance id / mime type): only absence must work
            _ => self.value == "absent",
        }
    }
}

pub fn run_bcase(c: &BCase) -> Outcome {
    let a = assets::by_name(&c.asset);
    let mut failures = vec![];
    let fv = format!("field={} value={} v={}", c.field, c.value, c.ver);
    let signed = par::guard(|| -> c2pa::Result<Vec<u8>> {
        let signer = sdk::fixture_signer("ed25519");
        let mut b = Builder::from_context(sdk::ctx()).with_definition(c.definition())?;
        b.set_intent(BuilderIntent::Create(DigitalSourceType::DigitalCapture));
        let mut dst = Cursor::new(Vec::new());
        b.sign(signer.as_ref(), a.mime, &mut Cursor::new(&a.data), &mut dst)?;
        Ok(dst.into_inner())
    });
    let out = match signed {
        Err(p) => {
            failures.push((format!("boundary sign-panic {fv}"), p));
            return Outcome { class: "boundary:sign-panic".into(), failures, compared: false };
        }
        Ok(Err(e)) => {
            let k = sdk::err_kind(&e);
            if c.must_sign() {
                failures.push((format!("boundary sign-error kind={k} {fv}"), format!("{e:?}")));
            }
            return Outcome { class: format!("boundary:sign-err:{k}"), failures, compared: false };
        }
        Ok(Ok(o)) => o,
    };
    // signing succeeded: the output must read back, Valid, with what was supplied
    let rd = match par::guard(|| sdk::read(sdk::ctx(), a.mime, &out)) {
        Err(p) => {
            failures.push((format!("boundary read-panic {fv}"), p));
            return Outcome { class: "boundary:read-panic".into(), failures, compared: false };
        }
        Ok(Err(e)) => {
            failures.push((format!("boundary signed-but-unreadable kind={} {fv}", sdk::err_kind(&e)), format!("Builder::sign returned Ok, reading the output fails: {e:?}")));
            return Outcome { class: format!("boundary:read-err:{}", sdk::err_kind(&e)), failures, compared: false };
        }
        Ok(Ok(r)) => r,
    };
    let state = sdk::state_name(rd.validation_state());
    if state != "Valid" {
        failures.push((format!("boundary state={state} {fv}"), format!("codes {:?}", kit::canon::codes(&rd).iter().filter(|x| x.contains("/failure")).collect::<Vec<_>>())));
    }
    let j: Value = serde_json::from_str(&rd.json()).unwrap_or(Value::Null);
    let m = &j["manifests"][j["active_manifest"].as_str().unwrap_or("")];
    let supplied = b_value(&c.value);
    let want_title = if c.field == "title" { supplied.clone() } else { Some(defs::TITLE.to_string()) };
    let got_title = m["title"].as_str().map(|x| x.to_string());
    // an empty title and an absent title are the same report (the claim cannot carry a zero-length dc:title)
    let norm = |t: &Option<String>| t.clone().filter(|x| !x.is_empty());
    if norm(&want_title) != norm(&got_title) {
        failures.push((format!("boundary title {fv}"), format!("reported title {:?}", got_title.map(|t| short(&t)))));
    }
    let cgi = &m["claim_generator_info"][0];
    let want_name = if c.field == "generator.name" { supplied.clone() } else { Some(defs::GEN_NAME.to_string()) };
    let want_ver = if c.field == "generator.version" { supplied.clone() } else { Some(defs::GEN_VERSION.to_string()) };
    if cgi["name"].as_str().map(|x| x.to_string()) != want_name || cgi["version"].as_str().map(|x| x.to_string()) != want_ver {
        failures.push((format!("boundary claim-generator-info {fv}"), format!("reported name {:?} version {:?}", cgi["name"].as_str().map(short), cgi["version"].as_str().map(short))));
    }
    // Builder::sign documents setting the format from its `format` argument; claim v2 has no format field
    let fmt_ok = match m["format"].as_str() { Some(f) => f == a.mime, None => c.ver >= 2 };
    if !fmt_ok {
        failures.push((format!("boundary format {fv}"), format!("reported format {:?}", m["format"])));
    }
    let class = if failures.is_empty() { "boundary:ok".to_string() } else { "boundary:oracle-failure".to_string() };
    Outcome { class, failures, compared: true }
}

fn execute_boundary(run: &Run, name: &str, cases: &[BCase]) {
    let stats = STATS.get_or_init(Default::default);
    run.space(name, cases.len() as u64, true);
    par::for_each(cases, |c| {
        let o = run_bcase(c);
        run.eval();
        run.outcome(o.class.clone());
        if o.compared {
            run.nontrivial(c.id());
        }
        for (k, w) in o.failures {
            stats.violation(run, 6, format!("{k} asset={}", c.asset), format!("{}: {w}", c.id()), c.to_json());
        }
    });
}

pub fn boundary_cases(thorough: bool) -> Vec<BCase> {
    let assets: Vec<String> = if thorough { assets::base().iter().map(|a| a.name.to_string()).collect() } else { vec!["jpeg".into(), "png".into()] };
    let mut v = vec![];
    for a in &assets { for ver in [1u8, 2] { for f in B_FIELDS { for val in B_VALUES {
        v.push(BCase { asset: a.clone(), ver, field: f.into(), value: val.into() });
    }}}}
    v
}

pub fn run(run: &Run, replay: Option<&Value>) {
    run.rule("cases = configurations (asset, signing alg, claim hash alg, compressed, claim version, embedded|sidecar|remote+embedded, trust anchors, definition); \
              each is signed with Builder::sign (intent Create) and read back with Reader; the sub-products enumerated are listed in `spaces`. \
              non-trivial = distinct configurations whose signing and reading both succeeded, so that the reported manifest was compared field by field with what was supplied.");
    run.assume("intent Create(DigitalCapture): the SDK documents adding a c2pa.created action; auto thumbnails are disabled so a thumbnail is reported iff one was supplied");
    run.assume("definitions avoid floats; labels follow the C2PA label grammar (ALPHA / DIGIT / '-' / '_' components separated by '.')");
    run.assume("remote+embedded on a format whose handler has no remote-reference writer may fail (outcome class sign-err-remote-unsupported); everything else must sign");
    run.assume("boundary leg: one scalar definition field at a time takes {absent, \"\", \" \", 1 char, non-ASCII, 255, 256 chars}; a signing error is only an outcome when the value is plausibly illegal for the field (empty title, blank generator name/version, any non-absent vendor / label / instance id / format); whenever signing succeeds the output must read back Valid with title and claim generator as supplied (an empty title and an absent title are treated as the same report); the reported format is the one Builder::sign was called with, as documented");
    if let Some(c) = replay {
        if c["leg"] == "boundary" {
            let case = BCase::from_json(c);
            let o = run_bcase(&case);
            println!("replay {}: class {}", case.id(), o.class);
            run.eval();
            for (k, w) in o.failures {
                println!("  FAIL {k}: {w}");
                run.violation(format!("{k} asset={}", case.asset), w, c.clone());
            }
            return;
        }
        let case = Case::from_json(c);
        let o = run_case(&case);
        println!("replay {}: class {}", case.id(), o.class);
        run.eval();
        for (k, w) in o.failures {
            println!("  FAIL {k}: {w}");
            run.violation(format!("{k} asset={}", case.asset), w, c.clone());
        }
        return;
    }
    let all = assets::all();
    // determinism: one case twice, canonical reports must agree
    {
        let c = Case::base("jpeg");
        let a = assets::by_name("jpeg");
        let mut canons = vec![];
        for _ in 0..2 {
            match build_and_sign(&c, &a.data, a.mime) {
                Ok(Ok((out, man))) => match read_back(&c, a.mime, &out, &man) {
                    Ok(Ok(rd)) => canons.push(defs::view(&rd)),
                    x => kit::ev::machinery(format!("C03 baseline read failed: {:?}", x.map(|r| r.map(|_| ())))),
                },
                x => kit::ev::machinery(format!("C03 baseline sign failed: {:?}", x.map(|r| r.map(|_| ())))),
            }
            run.eval();
        }
        if canons[0] != canons[1] {
            kit::ev::machinery(format!("C03: two executions of the same case give different canonical reports: {:?}", crate::c22::first_diff(&canons[0], &canons[1], "")));
        }
    }
    let names: Vec<&str> = all.iter().map(|a| a.name).collect();
    let algs: Vec<&str> = sdk::ALGS.iter().map(|x| x.0).collect();
    let hashes = ["sha256", "sha384", "sha512"];
    let modes = ["embedded", "sidecar", "remote"];
    let core = defs::core_defs();
    let thorough = run.tier.is_thorough();

    if !thorough {
        // A: format x alg x hash
        let mut v = vec![];
        for n in &names { for a in &algs { for h in &hashes {
            v.push(Case { alg: a.to_string(), hash: h.to_string(), ..Case::base(n) });
        }}}
        execute(run, "A: asset(19) x signing alg(7) x claim hash alg(3) [plain, v2, embedded, rich definition]", &v);
        // B: format x settings
        let mut v = vec![];
        for n in &names { for comp in [false, true] { for ver in [1u8, 2] { for m in &modes {
            v.push(Case { compress: comp, ver, mode: m.to_string(), ..Case::base(n) });
        }}}}
        execute(run, "B: asset(19) x compressed(2) x claim version(2) x {embedded,sidecar,remote+embedded} [ed25519, sha256, rich definition]", &v);
        // C: format x 8 definitions
        let mut v = vec![];
        for n in &names { for d in &core {
            v.push(Case { def: d.clone(), ..Case::base(n) });
        }}
        execute(run, "C: asset(19) x core definitions(8)", &v);
        // D: trust anchors configured
        let mut v = vec![];
        for n in &names { for a in &algs {
            v.push(Case { alg: a.to_string(), trust: true, ..Case::base(n) });
        }}
        execute(run, "D: asset(19) x signing alg(7) with the fixture root bundle as trust anchors (must be Trusted)", &v);
        // E: all definitions on one format
        let v: Vec<Case> = defs::all_defs().into_iter().map(|d| Case { def: d, ..Case::base("jpeg") }).collect();
        execute(run, "E: jpeg x all 1152 generated definitions (64 assertion subsets x thumbnail x 0..2 ingredients x 0..2 actions)", &v);
        // F: payload size sweep across the CBOR length boundaries
        let mut v = vec![];
        for n in ["jpeg", "png"] { for k in [Kind::Cbor, Kind::Json] { for len in defs::sweep_lengths(false) {
            v.push(Case { def: Def::sweep(k, len), ..Case::base(n) });
        }}}
        execute(run, "F: {jpeg,png} x {cbor,json} x every payload string length in 0..=40, 236..=270, 65500..=65560", &v);
    } else {
        // T1: the full product over the core definitions (compression costs ~1 s of CPU per case inside the SDK, so it is
        // fully crossed with asset, version, mode and definition, and with the algorithms on one asset per handler family)
        let mut v = vec![];
        for n in &names { for a in &algs { for h in &hashes { for ver in [1u8, 2] { for m in &modes { for d in &core {
            v.push(Case { asset: n.to_string(), alg: a.to_string(), hash: h.to_string(), compress: false, ver, mode: m.to_string(), trust: false, def: d.clone(), fault: 0 });
        }}}}}}
        execute(run, "T1a: full product asset(19) x alg(7) x hash(3) x version(2) x mode(3) x core definitions(8), uncompressed", &v);
        let mut v = vec![];
        for n in &names { for ver in [1u8, 2] { for m in &modes { for d in &core {
            v.push(Case { asset: n.to_string(), compress: true, ver, mode: m.to_string(), def: d.clone(), ..Case::base(n) });
        }}}}
        for n in ["jpeg", "png", "wav", "tiff", "svg", "mp3", "mp4"] { for a in &algs { for h in &hashes {
            v.push(Case { alg: a.to_string(), hash: h.to_string(), compress: true, ..Case::base(n) });
        }}}
        execute(run, "T1b: compressed manifests: asset(19) x version(2) x mode(3) x core definitions(8), and {jpeg,png,wav,tiff,svg,mp3,mp4} x alg(7) x hash(3)", &v);
        // T2: all definitions on one format per handler family, crossed with version (and with compression on jpeg)
        let mut v = vec![];
        for n in ["jpeg", "png", "gif", "wav", "tiff", "svg", "mp3", "jxl", "mp4"] { for ver in [1u8, 2] { for comp in [false, true] { for d in defs::all_defs() {
            if comp && (n != "jpeg" || ver != 2) { continue; }
            v.push(Case { compress: comp, ver, def: d, ..Case::base(n) });
        }}}}
        execute(run, "T2: {jpeg,png,gif,wav,tiff,svg,mp3,jxl,mp4} x version(2) x all 1152 definitions, plus compressed on jpeg (claim v2)", &v);
        // T3: trust
        let mut v = vec![];
        for n in &names { for a in &algs { for ver in [1u8, 2] { for m in &modes {
            v.push(Case { alg: a.to_string(), trust: true, ver, mode: m.to_string(), ..Case::base(n) });
        }}}}
        execute(run, "T3: asset(19) x alg(7) x version(2) x mode(3) with trust anchors (must be Trusted)", &v);
        // T4: wide size sweep on every base format
        let mut v = vec![];
        for a in assets::base() { for k in [Kind::Cbor, Kind::Json] { for len in defs::sweep_lengths(true) {
            v.push(Case { def: Def::sweep(k, len), ..Case::base(a.name) });
        }}}
        execute(run, "T4: base asset(13) x {cbor,json} x every payload string length in 0..=300, 65400..=65700", &v);
    }
    let bc = boundary_cases(thorough);
    execute_boundary(run, &format!("boundary values: asset({}) x claim version(2) x scalar definition field(7: title, generator name/version, vendor, label, instance_id, format) x value(7: absent, \"\", \" \", 1 char, non-ASCII, 255 chars, 256 chars)", if thorough { 13 } else { 2 }), &bc);
    run.sample(json!({"case": bc[1].to_json(), "definition": bc[1].definition(), "outcome": run_bcase(&bc[1]).class}));
    run.eval();
    STATS.get_or_init(Default::default).finish(run, "C03");
    let c = Case::base("jpeg");
    run.sample(json!({"case": c.to_json(), "definition": c.def.definition(2, Some("sha256")), "outcome": run_case(&c).class}));
    let c = Case { alg: "ps384".into(), hash: "sha512".into(), compress: true, ver: 1, mode: "sidecar".into(), ..Case::base("mp4") };
    run.sample(json!({"case": c.to_json(), "outcome": run_case(&c).class}));
    let c = Case { def: Def::sweep(Kind::Cbor, 65536), ..Case::base("png") };
    run.sample(json!({"case": c.to_json(), "outcome": run_case(&c).class}));
    run.evals(3);
}

//! C38 — validation is deterministic and repeatable; signing does not depend on earlier operations in the process.
//! S-seq: ALL sequences up to a length over an alphabet of eight operations are executed in ONE process (this one),
//! each sequence on a fresh thread (so the legacy thread-local settings a sequence leaves behind are its own), the
//! process-wide state (lazy registries, caches) accumulating over all sequences. After a sequence every asset it
//! produced is re-read twice. Reference = a FRESH worker process (`current_exe()` re-executed with VERIF_C38_WORKER=1)
//! per asset read / per operation kind, which has executed nothing before.
//!
//! Oracle: (a) the canonical report of every read in the sequence, and of both re-reads, equals the fresh process's
//! report for the same bytes and settings; (b) the canonical report of every asset a signing operation produced
//! equals that of the same operation performed by a fresh process (labels/instance ids/times canonicalised);
//! (c) result classes of the non-reading operations equal the fresh process's.
//!
//! Every read is done with the kit's explicit settings AND with a plain `Context::new()`.
//!
//! Mutants caught (mutant_run, quick tier):
//!   C38-context-from-thread-local.diff   Context::new() starts from the legacy thread-local settings
//!       -> VIOLATION  keys `read-report-differs-from-fresh-process op=read-good|read-tampered after=legacy-from_toml`,
//!          `produced-asset-read-differs-from-fresh-process … after=legacy-from_toml`

use c2pa::{settings::Settings, Builder, ProgressPhase, Reader};
use kit::{assets, ev::hex, ev::unhex, gutil, par, sdk, Run};
use serde_json::{json, Value};
use std::{
    collections::BTreeMap,
    io::{Cursor, Read, Write},
    process::{Command, Stdio},
    sync::{
        atomic::{AtomicUsize, Ordering},
        Arc, Mutex, OnceLock,
    },
};

const OPS: [&str; 8] = ["sign-png", "sign-jpeg", "read-good", "read-tampered", "sign-with-ingredient", "archive-round-trip-sign", "legacy-from_toml", "cancelled-read"];
const DEF: &str = r#"{"title":"t","claim_generator_info":[{"name":"kit","version":"1"}]}"#;
const ING: &str = r#"{"title":"i","relationship":"componentOf"}"#;
const LEGACY: &str = "[verify]\nverify_after_reading = false\nverify_after_sign = false\n[builder.claim_generator_info]\nname = \"leaked-from-thread-local\"\n";

struct Fixed {
    good: Vec<u8>,
    tampered: Vec<u8>,
}

fn signer() -> &'static (dyn c2pa::Signer + Send + Sync) {
    static S: OnceLock<Box<dyn c2pa::Signer + Send + Sync>> = OnceLock::new();
    S.get_or_init(|| sdk::fixture_signer("ed25519")).as_ref()
}

/// The two fixed inputs. Signing is deterministic up to identifiers, but the BYTES differ from process to process,
/// so workers receive them from the parent.
fn make_fixed() -> Fixed {
    let a = assets::by_name("jpeg");
    let good = sdk::sign_simple(signer(), a.mime, &a.data, &[]);
    // alter one byte of the media data that lies behind the manifest (last bytes are entropy coded data + EOI)
    let mut tampered = good.clone();
    let n = tampered.len();
    tampered[n - 4] ^= 0x55;
    Fixed { good, tampered }
}

fn read_canon(mime: &str, bytes: &[u8]) -> String {
    read_both(mime, bytes).0
}

fn read_default(mime: &str, bytes: &[u8]) -> String {
    match par::guard(|| Reader::from_context(c2pa::Context::new()).with_stream(mime, Cursor::new(bytes))) {
        Err(p) => format!("PANIC {p}"),
        Ok(Err(e)) => gutil::err_class(&e),
        Ok(Ok(r)) => format!("Ok:{}", gutil::canon2(&r, false)),
    }
}

/// (canonical report, the same with digests masked)
fn read_both(mime: &str, bytes: &[u8]) -> (String, String) {
    match par::guard(|| sdk::read(sdk::ctx(), mime, bytes)) {
        Err(p) => (format!("PANIC {p}"), format!("PANIC {p}")),
        Ok(Err(e)) => (gutil::err_class(&e), gutil::err_class(&e)),
        Ok(Ok(r)) => (format!("Ok:{} | default-context: {}", gutil::canon2(&r, false), read_default(mime, bytes)), format!("Ok:{}", gutil::canon2(&r, true))),
    }
}

/// What one operation did: (result class or canonical report, produced asset)
struct Done {
    obs: String,
    produced: Option<(&'static str, Vec<u8>)>,
}

#[allow(deprecated)]
fn perform(op: usize, fx: &Fixed) -> Done {
    let png = assets::by_name("png");
    let jpeg = assets::by_name("jpeg");
    let sign_with = |b: &mut Builder, a: &assets::Asset| -> Done {
        let mime: &'static str = a.mime;
        match par::guard(|| sdk::sign(b, signer(), mime, &a.data)) {
            Err(p) => Done { obs: format!("PANIC {p}"), produced: None },
            Ok(Err(e)) => Done { obs: gutil::err_class(&e), produced: None },
            Ok(Ok((bytes, _))) => Done { obs: "signed".into(), produced: Some((mime, bytes)) },
        }
    };
    match op {
        0 => sign_with(&mut sdk::builder(sdk::ctx(), DEF), &png),
        1 => sign_with(&mut sdk::builder(sdk::ctx(), DEF), &jpeg),
        // each read twice: with the kit's explicit settings and with a plain `Context::new()` (default settings)
        2 => Done { obs: format!("{} | default-context: {}", read_canon("image/jpeg", &fx.good), read_default("image/jpeg", &fx.good)), produced: None },
        3 => Done { obs: format!("{} | default-context: {}", read_canon("image/jpeg", &fx.tampered), read_default("image/jpeg", &fx.tampered)), produced: None },
        4 => {
            let mut b = sdk::builder(sdk::ctx(), DEF);
            match par::guard(|| b.add_ingredient_from_stream(ING, "image/jpeg", &mut Cursor::new(&fx.good)).map(|_| ())) {
                Err(p) => return Done { obs: format!("PANIC {p}"), produced: None },
                Ok(Err(e)) => return Done { obs: format!("ingredient {}", gutil::err_class(&e)), produced: None },
                Ok(Ok(())) => {}
            }
            sign_with(&mut b, &png)
        }
        5 => {
            let r = par::guard(|| {
                let b = Builder::from_context(sdk::ctx()).with_definition(DEF)?;
                let mut arc = Cursor::new(Vec::new());
                b.to_archive(&mut arc)?;
                arc.set_position(0);
                Builder::from_context(sdk::ctx()).with_archive(arc)
            });
            match r {
                Err(p) => Done { obs: format!("PANIC {p}"), produced: None },
                Ok(Err(e)) => Done { obs: format!("archive {}", gutil::err_class(&e)), produced: None },
                Ok(Ok(mut b2)) => {
                    b2.set_intent(c2pa::BuilderIntent::Edit);
                    sign_with(&mut b2, &png)
                }
            }
        }
        6 => match par::guard(|| Settings::from_toml(LEGACY)) {
            Err(p) => Done { obs: format!("PANIC {p}"), produced: None },
            Ok(Err(e)) => Done { obs: gutil::err_class(&e), produced: None },
            Ok(Ok(())) => Done { obs: "legacy-set".into(), produced: None },
        },
        7 => {
            let n = Arc::new(AtomicUsize::new(0));
            let n2 = n.clone();
            let ctx = sdk::ctx().with_progress_callback(move |_p: ProgressPhase, _s, _t| n2.fetch_add(1, Ordering::SeqCst) < 2);
            let r = par::guard(|| Reader::from_context(ctx).with_stream("image/jpeg", Cursor::new(&fx.good)));
            Done {
                obs: match r {
                    Err(p) => format!("PANIC {p}"),
                    Ok(Err(c2pa::Error::OperationCancelled)) => "Cancelled".into(),
                    Ok(Err(e)) => gutil::err_class(&e),
                    Ok(Ok(r)) => format!("not cancelled: {}", sdk::state_name(r.validation_state())),
                },
                produced: None,
            }
        }
        _ => kit::ev::machinery("C38: unknown op"),
    }
}

// ------------------------------------------------------------------------------------------------
// fresh worker processes

/// Worker side: one job on stdin, one JSON line on stdout, then exit.
fn worker_main() -> ! {
    par::quiet_panics();
    let mut s = String::new();
    if std::io::stdin().read_to_string(&mut s).is_err() {
        std::process::exit(4);
    }
    let job: Value = serde_json::from_str(&s).unwrap_or(Value::Null);
    let fx = Fixed { good: unhex(job["good"].as_str().unwrap_or("")), tampered: unhex(job["tampered"].as_str().unwrap_or("")) };
    let out = match job["job"].as_str() {
        Some("read") => {
            let (c, m) = read_both(job["mime"].as_str().unwrap_or(""), &unhex(job["hex"].as_str().unwrap_or("")));
            json!({"canon": c, "masked": m})
        }
        Some("op") => {
            let d = perform(job["op"].as_u64().unwrap_or(99) as usize, &fx);
            let produced_canon = d.produced.as_ref().map(|(m, b)| read_both(m, b).1);
            json!({"obs": d.obs, "produced_canon": produced_canon})
        }
        _ => std::process::exit(5),
    };
    println!("{out}");
    std::process::exit(0);
}

fn spawn_worker(job: &Value) -> Value {
    let exe = std::env::current_exe().unwrap_or_else(|e| kit::ev::machinery(format!("C38: current_exe: {e}")));
    let mut child = Command::new(exe)
        .arg("C38")
        .env("VERIF_C38_WORKER", "1")
        .stdin(Stdio::piped())
        .stdout(Stdio::piped())
        .stderr(Stdio::null())
        .spawn()
        .unwrap_or_else(|e| kit::ev::machinery(format!("C38: cannot spawn worker: {e}")));
    {
        let mut si = child.stdin.take().unwrap_or_else(|| kit::ev::machinery("C38: worker stdin"));
        let _ = si.write_all(job.to_string().as_bytes());
    }
    let out = child.wait_with_output().unwrap_or_else(|e| kit::ev::machinery(format!("C38: worker wait: {e}")));
    if !out.status.success() {
        kit::ev::machinery(format!("C38: worker failed with {:?} for job {}", out.status, job["job"]));
    }
    serde_json::from_slice(&out.stdout).unwrap_or_else(|e| kit::ev::machinery(format!("C38: worker output unreadable: {e}")))
}

// ------------------------------------------------------------------------------------------------

struct SeqRecord {
    seq: Vec<usize>,
    /// per op: observation
    obs: Vec<String>,
    /// produced assets: (op index in seq, mime, bytes, in-process reads [immediate, re-read 1, re-read 2])
    produced: Vec<(usize, &'static str, Vec<u8>, Vec<String>)>,
}

fn run_sequence(seq: &[usize], fx: &Arc<Fixed>) -> SeqRecord {
    let (seq2, fx2) = (seq.to_vec(), fx.clone());
    let h = std::thread::spawn(move || {
        let mut rec = SeqRecord { seq: seq2.clone(), obs: vec![], produced: vec![] };
        for (i, op) in seq2.iter().enumerate() {
            let d = perform(*op, &fx2);
            rec.obs.push(d.obs);
            if let Some((mime, bytes)) = d.produced {
                let now = read_canon(mime, &bytes);
                rec.produced.push((i, mime, bytes, vec![now]));
            }
        }
        // afterwards: re-read every produced asset, twice
        for p in rec.produced.iter_mut() {
            p.3.push(read_canon(p.1, &p.2));
            p.3.push(read_canon(p.1, &p.2));
        }
        rec
    });
    h.join().unwrap_or_else(|_| kit::ev::machinery("C38: sequence thread panicked outside a guarded call"))
}

fn all_sequences(max_len: usize) -> Vec<Vec<usize>> {
    let mut out: Vec<Vec<usize>> = vec![];
    let mut frontier: Vec<Vec<usize>> = vec![vec![]];
    for _ in 0..max_len {
        let mut next = vec![];
        for s in &frontier {
            for op in 0..OPS.len() {
                let mut x = s.clone();
                x.push(op);
                next.push(x);
            }
        }
        out.extend(next.iter().cloned());
        frontier = next;
    }
    out
}

fn names(seq: &[usize]) -> Vec<&'static str> {
    seq.iter().map(|o| OPS[*o]).collect()
}

fn first_diff(a: &str, b: &str) -> String {
    let i = a.bytes().zip(b.bytes()).position(|(x, y)| x != y).unwrap_or(a.len().min(b.len()));
    let s = i.saturating_sub(40);
    let cut = |t: &str| t.chars().skip(s).take(110).collect::<String>();
    format!("first difference at {i}: …{}… vs …{}…", cut(a), cut(b))
}

struct RefsOfFresh {
    /// per op: (obs, canon of the produced asset)
    op: Vec<(String, Option<String>)>,
}

fn judge(run: &Run, rec: &SeqRecord, fresh: &RefsOfFresh, fresh_reads: &BTreeMap<(usize, usize), (String, String)>, idx: usize, context: &str) -> usize {
    let case = json!({"sequence": rec.seq, "names": names(&rec.seq)});
    let mut bad = 0;
    let hist = |i: usize| -> String {
        // the most recent earlier operation kind, as the stable part of the key
        if i == 0 { "none".into() } else { OPS[rec.seq[i - 1]].to_string() }
    };
    for (i, op) in rec.seq.iter().enumerate() {
        let (want_obs, _) = &fresh.op[*op];
        if &rec.obs[i] != want_obs {
            bad += 1;
            let kind = if rec.obs[i].starts_with("PANIC") { "panic" } else if matches!(*op, 2 | 3) { "read-report-differs-from-fresh-process" } else { "operation-result-differs-from-fresh-process" };
            run.outcome(kind.to_string());
            run.violation(
                format!("{kind} op={} after={}{context}", OPS[*op], hist(i)),
                format!("sequence {:?}: step {i} ({}) gives a result that differs from the same operation in a fresh process: {}", names(&rec.seq), OPS[*op], first_diff(&rec.obs[i], want_obs)),
                case.clone(),
            );
        } else {
            run.outcome(format!("{}: equals fresh process", OPS[*op]));
        }
    }
    for (pi, (i, _mime, _bytes, reads)) in rec.produced.iter().enumerate() {
        let op = rec.seq[*i];
        // (a) all in-process reads of these bytes equal the fresh process's read of the same bytes
        let (want, want_masked) = fresh_reads.get(&(idx, pi)).unwrap_or_else(|| kit::ev::machinery("C38: missing fresh read"));
        for (ri, r) in reads.iter().enumerate() {
            if r != want {
                bad += 1;
                let when = ["immediately", "re-read-1", "re-read-2"][ri.min(2)];
                run.outcome("in-process read differs from fresh-process read");
                run.violation(
                    format!("produced-asset-read-differs-from-fresh-process when={when} op={} after={}{context}", OPS[op], hist(*i)),
                    format!("sequence {:?}: the asset produced at step {i} reads differently in this process ({when}) than in a fresh process: {}", names(&rec.seq), first_diff(r, want)),
                    case.clone(),
                );
                break;
            }
        }
        if reads.len() == 3 && reads[1] != reads[2] {
            bad += 1;
            run.violation(format!("re-reads-differ op={}{context}", OPS[op]), format!("sequence {:?}: two consecutive reads of the asset of step {i} differ: {}", names(&rec.seq), first_diff(&reads[1], &reads[2])), case.clone());
        }
        // (b) signing independent of history: same canonical report as the same operation in a fresh process
        if let Some(wantc) = &fresh.op[op].1 {
            if want_masked != wantc {
                bad += 1;
                run.outcome("signing depends on history");
                run.violation(
                    format!("signed-result-depends-on-history op={} after={}{context}", OPS[op], hist(*i)),
                    format!("sequence {:?}: the asset signed at step {i} ({}) is not the one a fresh process signs: {}", names(&rec.seq), OPS[op], first_diff(want_masked, wantc)),
                    case.clone(),
                );
            } else {
                run.outcome(format!("{}: output equals fresh-process output", OPS[op]));
            }
        }
    }
    bad
}

pub fn run(run: &Run, replay: Option<&Value>) {
    if std::env::var("VERIF_C38_WORKER").is_ok() {
        worker_main();
    }
    run.rule(
        "alphabet of 8 operations; ALL sequences up to the stated length run in this one process, each on a fresh thread, process-wide state accumulating; every asset produced is read at once and re-read twice at the end. \
         evaluations = operations executed here + fresh worker processes consulted. states = sequences (process histories), transitions = operations executed. \
         non-trivial = sequences of length >= 2 that produce at least one asset (a read whose history contains another operation), counted per distinct sequence.",
    );
    run.assume("a fresh worker process (same binary, nothing executed before) is the reference for 'the same bytes and settings'; its own determinism is checked by asking two workers");
    run.assume("reports are compared after canonicalisation (labels, instance ids, validation time)");
    run.assume("every read is done twice: with an explicit Context carrying the kit base settings and with a plain Context::new(); the legacy operation only touches thread-local settings, which no Context-based operation is supposed to read");
    let fx = Arc::new(make_fixed());
    let fixed_json = |mut j: Value| -> Value {
        j["good"] = json!(hex(&fx.good));
        j["tampered"] = json!(hex(&fx.tampered));
        j
    };

    // fresh-process references per operation kind (asked twice: the reference itself must be deterministic)
    let fresh_ops: Vec<(Value, Value)> = {
        let out: Mutex<BTreeMap<u64, (Value, Value)>> = Mutex::new(BTreeMap::new());
        par::for_each_index(OPS.len() as u64, |op| {
            let j = fixed_json(json!({"job": "op", "op": op}));
            out.lock().unwrap().insert(op, (spawn_worker(&j), spawn_worker(&j)));
        });
        out.into_inner().unwrap().into_values().collect()
    };
    run.evals(2 * OPS.len() as u64);
    let mut fresh = RefsOfFresh { op: vec![] };
    for (op, (a, b)) in fresh_ops.iter().enumerate() {
        if a != b {
            kit::ev::machinery(format!("C38: two fresh processes disagree on {}: {}", OPS[op], first_diff(&a.to_string(), &b.to_string())));
        }
        fresh.op.push((a["obs"].as_str().unwrap_or("").to_string(), a["produced_canon"].as_str().map(|s| s.to_string())));
    }
    // the references must be meaningful
    if !fresh.op[2].0.contains("\"state\":\"Valid\"") && !fresh.op[2].0.contains("\"state\":\"Trusted\"") {
        kit::ev::machinery(format!("C38 seed: fresh read of the good asset is not Valid: {}", fresh.op[2].0.chars().take(200).collect::<String>()));
    }
    if !fresh.op[3].0.contains("\"state\":\"Invalid\"") {
        kit::ev::machinery("C38 seed: fresh read of the tampered asset is not Invalid");
    }
    if fresh.op[6].0 != "legacy-set" || fresh.op[7].0 != "Cancelled" || fresh.op.iter().take(2).chain(fresh.op.iter().skip(4).take(2)).any(|o| o.0 != "signed" || !o.1.as_deref().unwrap_or("").starts_with("Ok:")) {
        kit::ev::machinery(format!("C38 seed: fresh operations do not succeed: {:?}", fresh.op.iter().map(|o| o.0.chars().take(30).collect::<String>()).collect::<Vec<_>>()));
    }

    let check = |seqs: &[Vec<usize>], context: &str| -> usize {
        // 1. all sequences, sequentially, in this process
        let recs: Vec<SeqRecord> = seqs.iter().map(|s| run_sequence(s, &fx)).collect();
        let ops_run: u64 = recs.iter().map(|r| r.seq.len() as u64 + 3 * r.produced.len() as u64).sum();
        run.evals(ops_run);
        run.states(recs.len() as u64);
        run.transitions(recs.iter().map(|r| r.seq.len() as u64).sum());
        run.traces(recs.len() as u64);
        // 2. one fresh process per produced asset
        let jobs: Vec<(usize, usize)> = recs.iter().enumerate().flat_map(|(i, r)| (0..r.produced.len()).map(move |p| (i, p))).collect();
        let fresh_reads: Mutex<BTreeMap<(usize, usize), (String, String)>> = Mutex::new(BTreeMap::new());
        par::for_each(&jobs, |(i, p)| {
            let (_, mime, bytes, _) = &recs[*i].produced[*p];
            let v = spawn_worker(&json!({"job": "read", "mime": mime, "hex": hex(bytes)}));
            fresh_reads.lock().unwrap().insert((*i, *p), (v["canon"].as_str().unwrap_or("").to_string(), v["masked"].as_str().unwrap_or("").to_string()));
        });
        run.evals(jobs.len() as u64);
        run.extra("fresh_worker_processes_for_produced_assets", json!(jobs.len()));
        let fr = fresh_reads.into_inner().unwrap();
        let mut bad = 0;
        for (i, r) in recs.iter().enumerate() {
            bad += judge(run, r, &fresh, &fr, i, context);
            if r.seq.len() >= 2 && !r.produced.is_empty() {
                run.nontrivial(format!("{:?}", r.seq));
            }
            if i % 97 == 13 {
                run.sample(json!({"sequence": names(&r.seq), "observations": r.obs.iter().map(|o| o.chars().take(24).collect::<String>()).collect::<Vec<_>>(), "assets_produced": r.produced.len()}));
            }
        }
        bad
    };

    if let Some(c) = replay {
        let seq: Vec<usize> = c["sequence"].as_array().map(|a| a.iter().filter_map(|x| x.as_u64().map(|n| n as usize)).collect()).unwrap_or_default();
        println!("replay sequence {:?} alone in this process", names(&seq));
        let bad = check(&[seq], "");
        println!("  deviations from the fresh-process references: {bad}");
        return;
    }

    let max_len = run.tier.pick(2usize, 4usize);
    let seqs = all_sequences(max_len);
    run.space(&format!("all operation sequences of length 1..={max_len} over {} operations {:?}", OPS.len(), OPS), seqs.len() as u64, true);
    // own the nondeterminism: the first two-step sequence twice
    {
        let a = run_sequence(&[0, 2], &fx);
        let b = run_sequence(&[0, 2], &fx);
        if a.obs != b.obs || a.produced.len() != b.produced.len() {
            kit::ev::machinery("C38: the same sequence gives two different canonical observations");
        }
    }
    check(&seqs, "");
}

//! C38 — validation is deterministic and repeatable; signing does not depend on earlier operations in the process.
//! S-seq: ALL sequences up to a length over a configuration-aware alphabet are executed in ONE process (this one),
//! each sequence on a fresh thread (so thread-local state a sequence leaves behind is its own), the process-wide state
//! (lazy registries, caches) accumulating over all sequences. Alphabet = operation kinds {sign png, sign jpeg, read good,
//! read tampered, sign with ingredient, archive round trip + sign, legacy Settings::from_toml, cancelled read} x the
//! validation-relevant configurations that matter for them {plain (no anchors), test root as trust anchor, allow-list
//! with the signer's certificate, verify_trust off}: 13 operations, in every order (trusted first, then plain, …).
//! After a sequence every asset it produced is re-read twice under the configuration of the producing operation.
//!
//! Reference = a FRESH process: a fork of an idle zygote (`current_exe()` re-executed with VERIF_C38_WORKER=zygote) that
//! has executed nothing of the SDK; one fork per job, always under the SAME configuration as the operation judged.
//! Oracle: (a) every operation's observation (for reads: the canonical report, under the op's configuration and under a
//! plain Context::new()) equals the fresh process's; (b) the digest-masked canonical report of every asset a signing
//! operation produced equals that of the same operation in a fresh process; (c) re-reads of a produced asset equal the
//! read made right after signing (quick) / the fresh-process read of the same bytes (thorough, replay).
//!
//! Mutants caught (mutant_run, quick tier):
//!   C38-context-from-thread-local.diff   Context::new() starts from the legacy thread-local settings
//!       -> VIOLATION  keys `read-report-differs-from-fresh-process op=read-good@… after=legacy-from_toml`, …
//!   /tmp/seed-C38 (thread-local memo of 'trusted' verdicts in Verifier::verify_trust, key ignores the trust policy)
//!       -> VIOLATION  keys `read-report-differs-from-fresh-process op=read-good@plain after=read-good@anchors`,
//!          `signed-result-depends-on-history op=sign-with-ingredient@plain after=read-good@anchors`, …

use c2pa::{settings::Settings, Builder, ProgressPhase, Reader};
use kit::{assets, ev::hex, ev::unhex, gutil, par, sdk, Run};
use serde_json::{json, Value};
use std::{
    collections::BTreeMap,
    io::{Cursor, Read, Write},
    process::{Command, Stdio},
    sync::{
        atomic::{AtomicUsize, Ordering},
        Arc, Mutex, OnceLock,
    },
};

/// Validation-relevant configurations (each on top of the kit base settings). The signer of every asset is the
/// repository's ed25519 test credential, whose chain ends in a root of trust/test_cert_root_bundle.pem.
const CFG_NAMES: [&str; 4] = ["plain", "anchors", "allow-list", "no-verify-trust"];

fn cfg_json(cfg: usize) -> &'static str {
    static C: OnceLock<Vec<String>> = OnceLock::new();
    &C.get_or_init(|| {
        let bundle = String::from_utf8_lossy(&sdk::fixture("certs/trust/test_cert_root_bundle.pem")).to_string();
        let chain = String::from_utf8_lossy(&sdk::fixture("certs/ed25519.pub")).to_string();
        let end = chain.find("-----END CERTIFICATE-----").map(|i| i + "-----END CERTIFICATE-----".len()).unwrap_or(chain.len());
        let ee = format!("{}\n", &chain[..end]);
        vec![
            "{}".to_string(),
            json!({"trust": {"trust_anchors": bundle}}).to_string(),
            json!({"trust": {"allowed_list": ee}}).to_string(),
            json!({"verify": {"verify_trust": false}}).to_string(),
        ]
    })[cfg]
}

fn cfg_ctx(cfg: usize) -> c2pa::Context {
    sdk::ctx_with(&[cfg_json(cfg)])
}

/// (name, kind, configuration)
struct OpSpec {
    name: &'static str,
    kind: usize,
    cfg: usize,
}

/// The alphabet: operation kinds x the configurations that matter for them.
fn ops() -> &'static [OpSpec] {
    static O: OnceLock<Vec<OpSpec>> = OnceLock::new();
    O.get_or_init(|| {
        let kinds = ["sign-png", "sign-jpeg", "read-good", "read-tampered", "sign-with-ingredient", "archive-round-trip-sign", "legacy-from_toml", "cancelled-read"];
        let mut v = vec![];
        for (kind, cfgs) in [(0usize, vec![0usize]), (1, vec![0]), (2, vec![0, 1, 2, 3]), (3, vec![0, 1]), (4, vec![0, 1]), (5, vec![0]), (6, vec![0]), (7, vec![0])] {
            for cfg in cfgs {
                let name: &'static str = if kind == 6 { kinds[kind] } else { Box::leak(format!("{}@{}", kinds[kind], CFG_NAMES[cfg]).into_boxed_str()) };
                v.push(OpSpec { name, kind, cfg });
            }
        }
        v
    })
}

fn op_named(name: &str) -> usize {
    ops().iter().position(|o| o.name == name).unwrap_or_else(|| kit::ev::machinery(format!("C38: no operation named {name}")))
}
const DEF: &str = r#"{"title":"t","claim_generator_info":[{"name":"kit","version":"1"}]}"#;
const ING: &str = r#"{"title":"i","relationship":"componentOf"}"#;
const LEGACY: &str = "[verify]\nverify_after_reading = false\nverify_after_sign = false\n[builder.claim_generator_info]\nname = \"leaked-from-thread-local\"\n";

struct Fixed {
    good: Vec<u8>,
    tampered: Vec<u8>,
}

fn signer() -> &'static (dyn c2pa::Signer + Send + Sync) {
    static S: OnceLock<Box<dyn c2pa::Signer + Send + Sync>> = OnceLock::new();
    S.get_or_init(|| sdk::fixture_signer("ed25519")).as_ref()
}

/// The two fixed inputs. Signing is deterministic up to identifiers, but the BYTES differ from process to process,
/// so workers receive them from the parent.
fn make_fixed() -> Fixed {
    let a = assets::by_name("jpeg");
    let good = sdk::sign_simple(signer(), a.mime, &a.data, &[]);
    // alter one byte of the media data that lies behind the manifest (last bytes are entropy coded data + EOI)
    let mut tampered = good.clone();
    let n = tampered.len();
    tampered[n - 4] ^= 0x55;
    Fixed { good, tampered }
}

fn read_canon(cfg: usize, mime: &str, bytes: &[u8]) -> String {
    read_both(cfg, mime, bytes).0
}

fn read_default(mime: &str, bytes: &[u8]) -> String {
    match par::guard(|| Reader::from_context(c2pa::Context::new()).with_stream(mime, Cursor::new(bytes))) {
        Err(p) => format!("PANIC {p}"),
        Ok(Err(e)) => gutil::err_class(&e),
        Ok(Ok(r)) => format!("Ok:{}", gutil::canon2(&r, false)),
    }
}

/// (canonical report, the same with digests masked)
fn read_both(cfg: usize, mime: &str, bytes: &[u8]) -> (String, String) {
    match par::guard(|| sdk::read(cfg_ctx(cfg), mime, bytes)) {
        Err(p) => (format!("PANIC {p}"), format!("PANIC {p}")),
        Ok(Err(e)) => (gutil::err_class(&e), gutil::err_class(&e)),
        Ok(Ok(r)) => (format!("Ok:{} | default-context: {}", gutil::canon2(&r, false), read_default(mime, bytes)), format!("Ok:{}", gutil::canon2(&r, true))),
    }
}

/// What one operation did: (result class or canonical report, produced asset)
struct Done {
    obs: String,
    produced: Option<(&'static str, Vec<u8>)>,
}

#[allow(deprecated)]
fn perform(op: usize, fx: &Fixed) -> Done {
    let cfg = ops()[op].cfg;
    let png = assets::by_name("png");
    let jpeg = assets::by_name("jpeg");
    let sign_with = |b: &mut Builder, a: &assets::Asset| -> Done {
        let mime: &'static str = a.mime;
        match par::guard(|| sdk::sign(b, signer(), mime, &a.data)) {
            Err(p) => Done { obs: format!("PANIC {p}"), produced: None },
            Ok(Err(e)) => Done { obs: gutil::err_class(&e), produced: None },
            Ok(Ok((bytes, _))) => Done { obs: "signed".into(), produced: Some((mime, bytes)) },
        }
    };
    match ops()[op].kind {
        0 => sign_with(&mut sdk::builder(cfg_ctx(cfg), DEF), &png),
        1 => sign_with(&mut sdk::builder(cfg_ctx(cfg), DEF), &jpeg),
        // each read twice: with the kit's explicit settings and with a plain `Context::new()` (default settings)
        2 => Done { obs: format!("{} | default-context: {}", read_canon(cfg, "image/jpeg", &fx.good), read_default("image/jpeg", &fx.good)), produced: None },
        3 => Done { obs: format!("{} | default-context: {}", read_canon(cfg, "image/jpeg", &fx.tampered), read_default("image/jpeg", &fx.tampered)), produced: None },
        4 => {
            let mut b = sdk::builder(cfg_ctx(cfg), DEF);
            match par::guard(|| b.add_ingredient_from_stream(ING, "image/jpeg", &mut Cursor::new(&fx.good)).map(|_| ())) {
                Err(p) => return Done { obs: format!("PANIC {p}"), produced: None },
                Ok(Err(e)) => return Done { obs: format!("ingredient {}", gutil::err_class(&e)), produced: None },
                Ok(Ok(())) => {}
            }
            sign_with(&mut b, &png)
        }
        5 => {
            let r = par::guard(|| {
                let b = Builder::from_context(cfg_ctx(cfg)).with_definition(DEF)?;
                let mut arc = Cursor::new(Vec::new());
                b.to_archive(&mut arc)?;
                arc.set_position(0);
                Builder::from_context(cfg_ctx(cfg)).with_archive(arc)
            });
            match r {
                Err(p) => Done { obs: format!("PANIC {p}"), produced: None },
                Ok(Err(e)) => Done { obs: format!("archive {}", gutil::err_class(&e)), produced: None },
                Ok(Ok(mut b2)) => {
                    b2.set_intent(c2pa::BuilderIntent::Edit);
                    sign_with(&mut b2, &png)
                }
            }
        }
        6 => match par::guard(|| Settings::from_toml(LEGACY)) {
            Err(p) => Done { obs: format!("PANIC {p}"), produced: None },
            Ok(Err(e)) => Done { obs: gutil::err_class(&e), produced: None },
            Ok(Ok(())) => Done { obs: "legacy-set".into(), produced: None },
        },
        7 => {
            let n = Arc::new(AtomicUsize::new(0));
            let n2 = n.clone();
            let ctx = cfg_ctx(cfg).with_progress_callback(move |_p: ProgressPhase, _s, _t| n2.fetch_add(1, Ordering::SeqCst) < 2);
            let r = par::guard(|| Reader::from_context(ctx).with_stream("image/jpeg", Cursor::new(&fx.good)));
            Done {
                obs: match r {
                    Err(p) => format!("PANIC {p}"),
                    Ok(Err(c2pa::Error::OperationCancelled)) => "Cancelled".into(),
                    Ok(Err(e)) => gutil::err_class(&e),
                    Ok(Ok(r)) => format!("not cancelled: {}", sdk::state_name(r.validation_state())),
                },
                produced: None,
            }
        }
        _ => kit::ev::machinery("C38: unknown op"),
    }
}

// ------------------------------------------------------------------------------------------------
// fresh worker processes

/// Worker side: one job on stdin, one JSON line on stdout, then exit.
fn do_job(job: &Value) -> Value {
    let fx = Fixed { good: unhex(job["good"].as_str().unwrap_or("")), tampered: unhex(job["tampered"].as_str().unwrap_or("")) };
    match job["job"].as_str() {
        Some("read") => {
            let (c, m) = read_both(job["cfg"].as_u64().unwrap_or(0) as usize, job["mime"].as_str().unwrap_or(""), &unhex(job["hex"].as_str().unwrap_or("")));
            json!({"canon": c, "masked": m})
        }
        Some("op") => {
            let op = job["op"].as_u64().unwrap_or(99) as usize;
            let d = perform(op, &fx);
            let produced_canon = d.produced.as_ref().map(|(m, b)| read_both(ops()[op].cfg, m, b).1);
            json!({"obs": d.obs, "produced_canon": produced_canon})
        }
        _ => json!({"error": "unknown job"}),
    }
}

/// Worker side. The worker is a ZYGOTE: a process of this binary that has executed nothing of the SDK. For every job
/// line on stdin it forks; the child — a copy of a process that has run nothing before — performs the one job,
/// prints one JSON line and exits. (One exec per zygote instead of one per job: process start-up of this binary
/// costs seconds on a loaded machine.) The zygote itself is single-threaded and never touches the SDK.
fn worker_main() -> ! {
    par::quiet_panics();
    let stdin = std::io::stdin();
    let mut line = String::new();
    loop {
        line.clear();
        match stdin.read_line(&mut line) {
            Ok(0) | Err(_) => std::process::exit(0),
            Ok(_) => {}
        }
        if line.trim().is_empty() {
            continue;
        }
        let pid = unsafe { libc::fork() };
        if pid < 0 {
            println!("{}", json!({"error": "fork failed"}));
            continue;
        }
        if pid == 0 {
            let job: Value = serde_json::from_str(line.trim()).unwrap_or(Value::Null);
            let out = par::guard(|| do_job(&job)).unwrap_or_else(|p| json!({"error": format!("worker panic: {p}")}));
            println!("{out}");
            let _ = std::io::stdout().flush();
            unsafe { libc::_exit(0) };
        }
        let mut status: libc::c_int = 0;
        unsafe { libc::waitpid(pid, &mut status, 0) };
        if !(libc::WIFEXITED(status) && libc::WEXITSTATUS(status) == 0) {
            // the child died without an answer: give the parent a line to read
            println!("{}", json!({"error": format!("fresh child died with status {status}")}));
        }
    }
}

struct Zygote {
    child: std::process::Child,
    stdin: std::process::ChildStdin,
    stdout: std::io::BufReader<std::process::ChildStdout>,
}

fn zygotes() -> &'static Vec<Mutex<Zygote>> {
    static Z: OnceLock<Vec<Mutex<Zygote>>> = OnceLock::new();
    Z.get_or_init(|| {
        let exe = std::env::current_exe().unwrap_or_else(|e| kit::ev::machinery(format!("C38: current_exe: {e}")));
        let n = par::workers().clamp(2, 16);
        let made: Mutex<Vec<Mutex<Zygote>>> = Mutex::new(vec![]);
        par::for_each_index(n as u64, |_| {
            let mut child = Command::new(&exe)
                .arg("C38")
                .env("VERIF_C38_WORKER", "zygote")
                .stdin(Stdio::piped())
                .stdout(Stdio::piped())
                .stderr(Stdio::null())
                .spawn()
                .unwrap_or_else(|e| kit::ev::machinery(format!("C38: cannot spawn worker: {e}")));
            let stdin = child.stdin.take().unwrap_or_else(|| kit::ev::machinery("C38: worker stdin"));
            let stdout = std::io::BufReader::new(child.stdout.take().unwrap_or_else(|| kit::ev::machinery("C38: worker stdout")));
            made.lock().unwrap().push(Mutex::new(Zygote { child, stdin, stdout }));
        });
        made.into_inner().unwrap()
    })
}

fn shutdown_zygotes() {
    for z in zygotes() {
        let mut g = z.lock().unwrap_or_else(|e| e.into_inner());
        let _ = g.child.kill();
        let _ = g.child.wait();
    }
}

/// One job in a fresh process (a fork of an idle zygote).
fn spawn_worker(job: &Value) -> Value {
    static NEXT: AtomicUsize = AtomicUsize::new(0);
    let zs = zygotes();
    let mut g = zs[NEXT.fetch_add(1, Ordering::Relaxed) % zs.len()].lock().unwrap_or_else(|e| e.into_inner());
    let mut line = job.to_string();
    line.push('\n');
    if g.stdin.write_all(line.as_bytes()).is_err() || g.stdin.flush().is_err() {
        kit::ev::machinery("C38: cannot send a job to a worker");
    }
    let mut answer = String::new();
    use std::io::BufRead;
    if g.stdout.read_line(&mut answer).unwrap_or(0) == 0 {
        kit::ev::machinery("C38: worker closed its output");
    }
    let v: Value = serde_json::from_str(answer.trim()).unwrap_or_else(|e| kit::ev::machinery(format!("C38: worker output unreadable: {e}")));
    if let Some(e) = v["error"].as_str() {
        kit::ev::machinery(format!("C38: worker failed: {e} (job {})", job["job"]));
    }
    v
}

// ------------------------------------------------------------------------------------------------

struct SeqRecord {
    seq: Vec<usize>,
    /// per op: observation
    obs: Vec<String>,
    /// produced assets: (op index in seq, mime, bytes, in-process reads [immediate, re-read 1, re-read 2])
    produced: Vec<(usize, &'static str, Vec<u8>, Vec<String>)>,
    /// digest-masked report of the read made right after each produced asset was signed
    produced_masked: Vec<String>,
}

fn run_sequence(seq: &[usize], fx: &Arc<Fixed>) -> SeqRecord {
    let (seq2, fx2) = (seq.to_vec(), fx.clone());
    let h = std::thread::spawn(move || {
        let mut rec = SeqRecord { seq: seq2.clone(), obs: vec![], produced: vec![], produced_masked: vec![] };
        for (i, op) in seq2.iter().enumerate() {
            let d = perform(*op, &fx2);
            rec.obs.push(d.obs);
            if let Some((mime, bytes)) = d.produced {
                let (now, masked) = read_both(ops()[*op].cfg, mime, &bytes);
                rec.produced.push((i, mime, bytes, vec![now]));
                rec.produced_masked.push(masked);
            }
        }
        // afterwards: re-read every produced asset, twice
        for p in rec.produced.iter_mut() {
            let cfg = ops()[rec.seq[p.0]].cfg;
            p.3.push(read_canon(cfg, p.1, &p.2));
            p.3.push(read_canon(cfg, p.1, &p.2));
        }
        rec
    });
    h.join().unwrap_or_else(|_| kit::ev::machinery("C38: sequence thread panicked outside a guarded call"))
}

fn all_sequences(max_len: usize) -> Vec<Vec<usize>> {
    let mut out: Vec<Vec<usize>> = vec![];
    let mut frontier: Vec<Vec<usize>> = vec![vec![]];
    for _ in 0..max_len {
        let mut next = vec![];
        for s in &frontier {
            for op in 0..ops().len() {
                let mut x = s.clone();
                x.push(op);
                next.push(x);
            }
        }
        out.extend(next.iter().cloned());
        frontier = next;
    }
    out
}

fn names(seq: &[usize]) -> Vec<&'static str> {
    seq.iter().map(|o| ops()[*o].name).collect()
}

fn first_diff(a: &str, b: &str) -> String {
    let i = a.bytes().zip(b.bytes()).position(|(x, y)| x != y).unwrap_or(a.len().min(b.len()));
    let s = i.saturating_sub(40);
    let cut = |t: &str| t.chars().skip(s).take(110).collect::<String>();
    format!("first difference at {i}: …{}… vs …{}…", cut(a), cut(b))
}

struct RefsOfFresh {
    /// per op: (obs, canon of the produced asset)
    op: Vec<(String, Option<String>)>,
}

fn judge(run: &Run, rec: &SeqRecord, fresh: &RefsOfFresh, fresh_reads: &BTreeMap<(usize, usize), (String, String)>, idx: usize, context: &str) -> usize {
    let case = json!({"sequence": rec.seq, "names": names(&rec.seq)});
    let mut bad = 0;
    let hist = |i: usize| -> String {
        // the most recent earlier operation kind, as the stable part of the key
        if i == 0 { "none".into() } else { ops()[rec.seq[i - 1]].name.to_string() }
    };
    for (i, op) in rec.seq.iter().enumerate() {
        let (want_obs, _) = &fresh.op[*op];
        if &rec.obs[i] != want_obs {
            bad += 1;
            let kind = if rec.obs[i].starts_with("PANIC") { "panic" } else if matches!(ops()[*op].kind, 2 | 3) { "read-report-differs-from-fresh-process" } else { "operation-result-differs-from-fresh-process" };
            run.outcome(kind.to_string());
            run.violation(
                format!("{kind} op={} after={}{context}", ops()[*op].name, hist(i)),
                format!("sequence {:?}: step {i} ({}) gives a result that differs from the same operation in a fresh process: {}", names(&rec.seq), ops()[*op].name, first_diff(&rec.obs[i], want_obs)),
                case.clone(),
            );
        } else {
            run.outcome(format!("{}: equals fresh process", ops()[*op].name));
        }
    }
    for (pi, (i, _mime, _bytes, reads)) in rec.produced.iter().enumerate() {
        let op = rec.seq[*i];
        // (a) all in-process reads of these bytes equal the fresh process's read of the same bytes
        // (quick tier: no fresh process per produced asset; then the reads made later must equal the read made right
        //  after signing, and (b) below judges that one, digests masked, against the fresh-process operation)
        let per_asset = fresh_reads.get(&(idx, pi));
        let (want, want_masked, reference) = match per_asset {
            Some((c, m)) => (c, m, "fresh-process"),
            None => (&reads[0], &rec.produced_masked[pi], "first-in-process"),
        };
        for (ri, r) in reads.iter().enumerate() {
            if r != want {
                bad += 1;
                let when = ["immediately", "re-read-1", "re-read-2"][ri.min(2)];
                run.outcome("in-process read of a produced asset differs from its reference read");
                run.violation(
                    format!("produced-asset-read-differs-from-{reference}-read when={when} op={} after={}{context}", ops()[op].name, hist(*i)),
                    format!("sequence {:?}: the asset produced at step {i} reads differently in this process ({when}) than its {reference} read: {}", names(&rec.seq), first_diff(r, want)),
                    case.clone(),
                );
                break;
            }
        }
        if reads.len() == 3 && reads[1] != reads[2] {
            bad += 1;
            run.violation(format!("re-reads-differ op={}{context}", ops()[op].name), format!("sequence {:?}: two consecutive reads of the asset of step {i} differ: {}", names(&rec.seq), first_diff(&reads[1], &reads[2])), case.clone());
        }
        // (b) signing independent of history: same canonical report as the same operation in a fresh process
        if let Some(wantc) = &fresh.op[op].1 {
            if want_masked != wantc {
                bad += 1;
                run.outcome("signing depends on history");
                run.violation(
                    format!("signed-result-depends-on-history op={} after={}{context}", ops()[op].name, hist(*i)),
                    format!("sequence {:?}: the asset signed at step {i} ({}) is not the one a fresh process signs: {}", names(&rec.seq), ops()[op].name, first_diff(want_masked, wantc)),
                    case.clone(),
                );
            } else {
                run.outcome(format!("{}: output equals fresh-process output", ops()[op].name));
            }
        }
    }
    bad
}

pub fn run(run: &Run, replay: Option<&Value>) {
    if std::env::var("VERIF_C38_WORKER").is_ok() {
        worker_main();
    }
    run.rule(
        "alphabet = 8 operation kinds x the validation-relevant configurations that matter for them {plain, test root as trust anchor, allow-list, verify_trust off} (13 operations); ALL sequences up to the stated length run in this one process, each on a fresh thread, process-wide state accumulating; every asset produced is read at once and re-read twice at the end. \
         evaluations = operations executed here + fresh worker processes consulted. states = sequences (process histories), transitions = operations executed. \
         non-trivial = sequences of length >= 2 that produce at least one asset (a read whose history contains another operation), counted per distinct sequence.",
    );
    run.assume("a fresh process = a fork of an idle zygote process of the same binary that has executed nothing of the SDK (one fork per job); it is the reference for 'the same bytes and settings'; its own determinism is checked by asking two workers");
    run.assume("reports are compared after canonicalisation (labels, instance ids, validation time)");
    run.assume("quick tier: fresh-process references exist per operation (= per fixed asset and configuration, asked twice); produced assets are judged by their digest-masked report against the fresh-process result of the same operation, and their later re-reads against the read made right after signing. thorough tier and replay: additionally one fresh process per produced asset");
    run.assume("each operation is compared with the fresh-process reference computed under the SAME configuration; produced assets are read under the configuration of the operation that produced them");
    run.assume("every read is done twice: with an explicit Context carrying the kit base settings and with a plain Context::new(); the legacy operation only touches thread-local settings, which no Context-based operation is supposed to read");
    let fx = Arc::new(make_fixed());
    let fixed_json = |mut j: Value| -> Value {
        j["good"] = json!(hex(&fx.good));
        j["tampered"] = json!(hex(&fx.tampered));
        j
    };

    // fresh-process references per operation (asked twice: the reference itself must be deterministic); the worker
    // processes work while this process runs its sequences
    let compute_fresh_ops = || -> Vec<(Value, Value)> {
        let out: Mutex<BTreeMap<u64, (Value, Value)>> = Mutex::new(BTreeMap::new());
        par::for_each_index(2 * ops().len() as u64, |k| {
            let op = k / 2;
            let j = fixed_json(json!({"job": "op", "op": op}));
            let v = spawn_worker(&j);
            let mut g = out.lock().unwrap();
            let e = g.entry(op).or_insert((Value::Null, Value::Null));
            if k % 2 == 0 { e.0 = v } else { e.1 = v }
        });
        out.into_inner().unwrap().into_values().collect()
    };
    let max_len = run.tier.pick(2usize, 3usize);
    let seqs: Vec<Vec<usize>> = match replay {
        Some(c) => vec![c["sequence"].as_array().map(|a| a.iter().filter_map(|x| x.as_u64().map(|n| n as usize)).collect()).unwrap_or_default()],
        None => all_sequences(max_len),
    };
    let t_seq = std::time::Instant::now();
    let (fresh_ops, recs): (Vec<(Value, Value)>, Vec<SeqRecord>) = std::thread::scope(|s| {
        let h = s.spawn(compute_fresh_ops);
        // own the nondeterminism: one two-step sequence twice
        let probe = [op_named("sign-png@plain"), op_named("read-good@plain")];
        let (a, b) = (run_sequence(&probe, &fx), run_sequence(&probe, &fx));
        if a.obs != b.obs || a.produced.len() != b.produced.len() {
            kit::ev::machinery("C38: the same sequence gives two different canonical observations");
        }
        // all sequences, sequentially, in this process
        let recs: Vec<SeqRecord> = seqs.iter().map(|s| run_sequence(s, &fx)).collect();
        (h.join().unwrap_or_else(|_| kit::ev::machinery("C38: reference thread panicked")), recs)
    });
    run.extra("elapsed_sequences_and_references_s", json!(t_seq.elapsed().as_secs_f64()));
    run.evals(2 * ops().len() as u64);
    let mut fresh = RefsOfFresh { op: vec![] };
    for (op, (a, b)) in fresh_ops.iter().enumerate() {
        if a != b {
            kit::ev::machinery(format!("C38: two fresh processes disagree on {}: {}", ops()[op].name, first_diff(&a.to_string(), &b.to_string())));
        }
        fresh.op.push((a["obs"].as_str().unwrap_or("").to_string(), a["produced_canon"].as_str().map(|s| s.to_string())));
    }
    // the references must be meaningful, and the configuration axis must matter
    let fresh_obs = |name: &str| fresh.op[op_named(name)].0.split(" | default-context").next().unwrap_or("").to_string();
    let state_is = |name: &str, st: &str| fresh_obs(name).contains(&format!("\"state\":\"{st}\""));
    if !state_is("read-good@plain", "Valid") || !fresh_obs("read-good@plain").contains("signingCredential.untrusted") {
        kit::ev::machinery(format!("C38 seed: fresh read-good@plain is not Valid/untrusted: {}", fresh_obs("read-good@plain").chars().take(200).collect::<String>()));
    }
    if !state_is("read-good@anchors", "Trusted") || !state_is("read-good@allow-list", "Trusted") {
        kit::ev::machinery("C38 seed: the test root / the allow-list do not make the fixture signer Trusted in a fresh process");
    }
    if !state_is("read-good@no-verify-trust", "Valid") || fresh_obs("read-good@no-verify-trust").contains("signingCredential.untrusted") {
        kit::ev::machinery("C38 seed: verify_trust=false does not switch the trust check off in a fresh process");
    }
    if !state_is("read-tampered@plain", "Invalid") || !state_is("read-tampered@anchors", "Invalid") {
        kit::ev::machinery("C38 seed: fresh read of the tampered asset is not Invalid");
    }
    for (i, o) in ops().iter().enumerate() {
        let bad = match o.kind {
            0 | 1 | 4 | 5 => fresh.op[i].0 != "signed" || !fresh.op[i].1.as_deref().unwrap_or("").starts_with("Ok:"),
            6 => fresh.op[i].0 != "legacy-set",
            7 => fresh.op[i].0 != "Cancelled",
            _ => false,
        };
        if bad {
            kit::ev::machinery(format!("C38 seed: fresh operation {} does not succeed: {}", o.name, fresh.op[i].0.chars().take(60).collect::<String>()));
        }
    }
    if fresh.op[op_named("sign-with-ingredient@plain")].1 == fresh.op[op_named("sign-with-ingredient@anchors")].1 {
        kit::ev::machinery("C38 seed: the trust configuration does not show in the validation results stored for the ingredient");
    }

    // thorough (and replay): one fresh process per produced asset; quick: fresh references per operation only
    let per_asset_fresh = run.tier.is_thorough() || replay.is_some();
    let check = |recs: Vec<SeqRecord>, context: &str| -> usize {
        let t_fresh = std::time::Instant::now();
        let ops_run: u64 = recs.iter().map(|r| r.seq.len() as u64 + 3 * r.produced.len() as u64).sum();
        run.evals(ops_run);
        run.states(recs.len() as u64);
        run.transitions(recs.iter().map(|r| r.seq.len() as u64).sum());
        run.traces(recs.len() as u64);
        // 2. one fresh process per produced asset
        let jobs: Vec<(usize, usize)> = if per_asset_fresh { recs.iter().enumerate().flat_map(|(i, r)| (0..r.produced.len()).map(move |p| (i, p))).collect() } else { vec![] };
        let fresh_reads: Mutex<BTreeMap<(usize, usize), (String, String)>> = Mutex::new(BTreeMap::new());
        par::for_each(&jobs, |(i, p)| {
            let (step, mime, bytes, _) = &recs[*i].produced[*p];
            let v = spawn_worker(&json!({"job": "read", "cfg": ops()[recs[*i].seq[*step]].cfg, "mime": mime, "hex": hex(bytes)}));
            fresh_reads.lock().unwrap().insert((*i, *p), (v["canon"].as_str().unwrap_or("").to_string(), v["masked"].as_str().unwrap_or("").to_string()));
        });
        run.evals(jobs.len() as u64);
        run.extra("fresh_worker_processes_for_produced_assets", json!(jobs.len()));
        run.extra("elapsed_fresh_reads_s", json!(t_fresh.elapsed().as_secs_f64()));
        let fr = fresh_reads.into_inner().unwrap();
        let mut bad = 0;
        for (i, r) in recs.iter().enumerate() {
            bad += judge(run, r, &fresh, &fr, i, context);
            if r.seq.len() >= 2 && !r.produced.is_empty() {
                run.nontrivial(format!("{:?}", r.seq));
            }
            if i % 97 == 13 {
                run.sample(json!({"sequence": names(&r.seq), "observations": r.obs.iter().map(|o| o.chars().take(24).collect::<String>()).collect::<Vec<_>>(), "assets_produced": r.produced.len()}));
            }
        }
        bad
    };

    if replay.is_some() {
        println!("replay sequence {:?} alone in this process", names(&seqs[0]));
        let bad = check(recs, "");
        println!("  deviations from the fresh-process references: {bad}");
        shutdown_zygotes();
        return;
    }
    run.space(&format!("all operation sequences of length 1..={max_len} over {} operations {:?}", ops().len(), ops().iter().map(|o| o.name).collect::<Vec<_>>()), seqs.len() as u64, true);
    check(recs, "");
    shutdown_zygotes();
}

//! C13 — range hashing equals the digest of exactly the selected bytes, independent of chunk size and
//! thread pipelining.
//!
//! (a) S-inp, exhaustive small scope on the real `hash_stream_by_alg` (public) and on the hook
//!     `verif_hooks::hash_stream_with_buf` (caller chosen read-chunk size): every stream length, every multiset of
//!     ranges over a value set that contains the u64 extremes, both modes, BMFF offset markers, every chunk size.
//!     Oracle = SHA-2 (`sha2` crate, called directly) of a byte-filter reference selection.
//! (b) S-sched: the worker-thread pipeline resolves thread creation and channels through
//!     `verif_hooks::sched`; with shuttle installed behind that facade a depth-first scheduler explores ALL
//!     interleavings of the reader thread and the per-chunk hash workers. Same digest on every schedule, no
//!     deadlock, an injected stream error is returned on every schedule.
//!
//! The S-inp spaces run the pipeline through the scheduler facade with an *inline* scheduler (a hash worker runs to
//! completion at its spawn point — one of the schedules S-sched enumerates); OS thread creation would otherwise
//! dominate 10^6..10^8 hashing calls. Space R and the free-running pass use real worker threads.
//!
//! Mutants caught (mutant_run, quick tier):
//!   C13-sort-by-end.diff        ranges sorted by end instead of start
//!       -> VIOLATION  key `wrong-digest mode=inclusion class=no-markers`
//!   C13-shared-hasher-race.diff hash workers update a shared hasher and the reader no longer waits for them
//!       -> VIOLATION  keys `nondeterministic-digest real-threads`, `sched-wrong-digest …`, `chunk-dependent …`, `free-running-pipeline`
//! Findings of this check on the pinned tree (before commit d2a8c4baf fixed them): `past-end-accepted mode=exclusion
//! offender=not-greatest-start|tied-greatest-start`, `wrong-digest mode=exclusion class=marker-on-one-byte-island(offset||offset)`,
//! `panic mode=inclusion … msg=attempt to add with overflow` (u32 sum of progress ticks for a 2^32-1 / 2^64-1 long inclusion range).

use c2pa::{
    verif_hooks::sched::{self, AnyMsg, RecvFn, SchedHooks, SendFn},
    HashRange,
};
use kit::{
    ev::hex,
    par,
    streams::{Dev, FaultStream, Plan},
    Run,
};
use serde_json::{json, Value};
use sha2::{Digest, Sha256, Sha384, Sha512};
use std::{
    collections::BTreeSet,
    io::Cursor,
    sync::{
        atomic::{AtomicU64, Ordering},
        Arc, Mutex,
    },
};

const HUGE: [u64; 3] = [u32::MAX as u64, 1 << 63, u64::MAX];
const ALGS: [&str; 3] = ["sha256", "sha384", "sha512"];

fn stream_bytes(l: usize) -> Vec<u8> {
    // distinct, non-zero, not equal to any byte of a small big-endian offset
    (0..l).map(|i| 0xA1u8.wrapping_add((i as u8).wrapping_mul(7))).collect()
}

fn sha(alg: &str, data: &[u8]) -> Vec<u8> {
    match alg {
        "sha256" => Sha256::digest(data).to_vec(),
        "sha384" => Sha384::digest(data).to_vec(),
        "sha512" => Sha512::digest(data).to_vec(),
        _ => kit::ev::machinery("reference: unknown algorithm"),
    }
}

#[derive(Clone, Debug, PartialEq)]
struct Case {
    l: usize,
    /// plain ranges (start, length)
    ranges: Vec<(u64, u64)>,
    /// marker positions: HashRange::new(p, 1) with set_bmff_offset(p), as the BMFF hasher builds them
    markers: Vec<u64>,
    excl: bool,
    alg: &'static str,
    /// pass `None` instead of `Some(vec![])` when there is nothing to pass
    none_when_empty: bool,
}

impl Case {
    fn json(&self) -> Value {
        json!({"kind": "inp", "L": self.l, "ranges": self.ranges, "markers": self.markers,
               "mode": if self.excl {"exclusion"} else {"inclusion"}, "alg": self.alg, "none_when_empty": self.none_when_empty})
    }

    fn from_json(v: &Value) -> Case {
        let alg = ALGS.iter().find(|a| Some(**a) == v["alg"].as_str()).copied().unwrap_or("sha256");
        Case {
            l: v["L"].as_u64().unwrap_or(0) as usize,
            ranges: v["ranges"].as_array().map(|a| a.iter().map(|p| (p[0].as_u64().unwrap_or(0), p[1].as_u64().unwrap_or(0))).collect()).unwrap_or_default(),
            markers: v["markers"].as_array().map(|a| a.iter().filter_map(|p| p.as_u64()).collect()).unwrap_or_default(),
            excl: v["mode"].as_str() != Some("inclusion"),
            alg,
            none_when_empty: v["none_when_empty"].as_bool().unwrap_or(true),
        }
    }

    /// The argument handed to the SDK. `descending` = by start descending (unsorted from the SDK's point of view).
    fn hash_ranges(&self, descending: bool) -> Option<Vec<HashRange>> {
        if self.ranges.is_empty() && self.markers.is_empty() && self.none_when_empty {
            return None;
        }
        let mut v: Vec<HashRange> = vec![];
        for p in &self.markers {
            let mut r = HashRange::new(*p, 1);
            r.set_bmff_offset(*p);
            v.push(r);
        }
        for (s, l) in &self.ranges {
            v.push(HashRange::new(*s, *l));
        }
        if descending {
            v.sort_by(|a, b| (b.start(), b.length()).cmp(&(a.start(), a.length())));
        } else {
            v.sort_by(|a, b| (a.start(), a.length()).cmp(&(b.start(), b.length())));
        }
        Some(v)
    }
}

/// What the property demands of one case.
#[derive(Debug, Clone, PartialEq)]
enum Expect {
    /// empty stream: an explicit error or the digest of nothing (never a panic)
    EmptyStream { digest_allowed: bool },
    /// a non-empty range reaches past the end (or overflows u64): must be an error
    MustErr { offender: &'static str },
    /// one of these digests; `err_also_ok` when an EMPTY range lies beyond the end (the text does not say whether that "reaches past the end")
    Digest { any_of: Vec<Vec<u8>>, err_also_ok: bool, proper_selection: bool },
    /// markers inside excluded regions / markers in inclusion mode: the property gives no reference; only
    /// chunk-size independence and absence of panics are demanded
    NoReference,
}

/// Boring reference: a byte filter.
fn expect(c: &Case, data: &[u8]) -> Expect {
    let l = c.l as u64;
    let past = |(s, n): &(u64, u64)| *n > 0 && s.checked_add(*n).map(|e| e > l).unwrap_or(true);
    let offenders: Vec<&(u64, u64)> = c.ranges.iter().filter(|r| past(r)).collect();
    if c.l == 0 {
        return Expect::EmptyStream { digest_allowed: offenders.is_empty() };
    }
    if !offenders.is_empty() {
        let max_start = c.ranges.iter().map(|r| r.0).chain(c.markers.iter().copied()).max().unwrap_or(0);
        let at_max: Vec<&(u64, u64)> = c.ranges.iter().filter(|r| r.0 == max_start).collect();
        let offender = if !offenders.iter().any(|r| r.0 == max_start) {
            "not-greatest-start"
        } else if at_max.iter().all(|r| past(r)) && !c.markers.contains(&max_start) {
            "greatest-start"
        } else {
            "tied-greatest-start"
        };
        return Expect::MustErr { offender };
    }
    let err_also_ok = c.ranges.iter().any(|(s, n)| *n == 0 && *s > l);
    if c.excl {
        let excluded = |i: u64| c.ranges.iter().any(|(s, n)| *n > 0 && i >= *s && i - *s < *n);
        if c.markers.iter().any(|m| excluded(*m)) {
            return Expect::NoReference;
        }
        let mut sel: Vec<u8> = vec![];
        for i in 0..l {
            if !excluded(i) {
                if c.markers.contains(&i) {
                    sel.extend_from_slice(&i.to_be_bytes());
                }
                sel.push(data[i as usize]);
            }
        }
        let proper = sel.len() != data.len() || !c.markers.is_empty();
        Expect::Digest { any_of: vec![sha(c.alg, &sel)], err_also_ok, proper_selection: proper }
    } else {
        if !c.markers.is_empty() {
            return Expect::NoReference;
        }
        let mut rs: Vec<(u64, u64)> = c.ranges.iter().filter(|r| r.1 > 0).cloned().collect();
        if c.ranges.is_empty() && c.none_when_empty {
            // no range argument at all: the whole stream
            return Expect::Digest { any_of: vec![sha(c.alg, data)], err_also_ok, proper_selection: false };
        }
        rs.sort();
        // "in range order" = by start; ranges with equal starts may come in either order
        let mut orders: Vec<Vec<(u64, u64)>> = vec![vec![]];
        let mut i = 0;
        while i < rs.len() {
            let mut j = i;
            while j < rs.len() && rs[j].0 == rs[i].0 {
                j += 1;
            }
            let group = &rs[i..j];
            let mut next = vec![];
            for perm in permutations(group) {
                for o in &orders {
                    let mut x = o.clone();
                    x.extend(perm.iter().cloned());
                    next.push(x);
                }
            }
            orders = next;
            i = j;
        }
        let mut any_of: Vec<Vec<u8>> = vec![];
        for o in orders {
            let mut sel = vec![];
            for (s, n) in o {
                sel.extend_from_slice(&data[s as usize..(s + n) as usize]);
            }
            let d = sha(c.alg, &sel);
            if !any_of.contains(&d) {
                any_of.push(d);
            }
        }
        Expect::Digest { any_of, err_also_ok, proper_selection: true }
    }
}

fn permutations(g: &[(u64, u64)]) -> Vec<Vec<(u64, u64)>> {
    if g.len() <= 1 {
        return vec![g.to_vec()];
    }
    let mut out: Vec<Vec<(u64, u64)>> = vec![];
    for i in 0..g.len() {
        let mut rest = g.to_vec();
        let x = rest.remove(i);
        for mut p in permutations(&rest) {
            p.insert(0, x);
            if !out.contains(&p) {
                out.push(p);
            }
        }
    }
    out
}

/// Alternative (wrong) model used ONLY to name a failure: a one-byte included island that is also a marker
/// position contributes offset‖offset.
fn island_defect_digest(c: &Case, data: &[u8]) -> Option<Vec<u8>> {
    if !c.excl || c.markers.is_empty() {
        return None;
    }
    let l = c.l as u64;
    let excluded = |i: u64| c.ranges.iter().any(|(s, n)| *n > 0 && i >= *s && i - *s < *n);
    let mut sel = vec![];
    let mut any = false;
    for i in 0..l {
        if excluded(i) {
            continue;
        }
        let island = (i == 0 || excluded(i - 1) || c.markers.contains(&i)) && (i + 1 >= l || excluded(i + 1) || c.markers.contains(&(i + 1)));
        if c.markers.contains(&i) {
            sel.extend_from_slice(&i.to_be_bytes());
            if island {
                sel.extend_from_slice(&i.to_be_bytes());
                any = true;
                continue;
            }
        }
        sel.push(data[i as usize]);
    }
    any.then(|| sha(c.alg, &sel))
}

type Obs = Result<Result<Vec<u8>, String>, String>; // panic | (digest | error kind)

/// Per-key limiter: the first few cases of every key are recorded as violations, all are counted.
static SEEN: Mutex<std::collections::BTreeMap<String, u64>> = Mutex::new(std::collections::BTreeMap::new());
const KEPT_PER_KEY: u64 = 3;

fn violation(run: &Run, key: String, what: String, case: Value) {
    let n = {
        let mut g = SEEN.lock().unwrap_or_else(|e| e.into_inner());
        let e = g.entry(key.clone()).or_insert(0);
        *e += 1;
        *e
    };
    if n <= KEPT_PER_KEY {
        run.violation(key, what, case);
    }
}

fn call_hook(c: &Case, data: &[u8], buf: usize) -> Obs {
    par::guard(|| {
        c2pa::verif_hooks::hash_stream_with_buf(c.alg, &mut Cursor::new(data), c.hash_ranges(true), c.excl, buf).map_err(|e| kit::sdk::err_kind(&e))
    })
}

fn call_public(c: &Case, data: &[u8], descending: bool) -> Obs {
    par::guard(|| c2pa::hash_stream_by_alg(c.alg, &mut Cursor::new(data), c.hash_ranges(descending), c.excl).map_err(|e| kit::sdk::err_kind(&e)))
}

fn show(o: &Obs) -> String {
    match o {
        Err(p) => format!("PANIC({p})"),
        Ok(Ok(d)) => format!("Ok({})", hex(&d[..6.min(d.len())])),
        Ok(Err(e)) => format!("Err({e})"),
    }
}

fn same(a: &Obs, b: &Obs) -> bool {
    match (a, b) {
        (Ok(Ok(x)), Ok(Ok(y))) => x == y,
        (Ok(Err(_)), Ok(Err(_))) => true, // the error kind may legitimately depend on where the problem is noticed
        _ => false,
    }
}

/// Execute one case with every chunk size and judge it. Returns the number of SDK calls made.
fn judge(run: &Run, c: &Case, verbose: bool, out: &mut std::collections::BTreeMap<&'static str, u64>) -> u64 {
    let mut acc = |k: &'static str| *out.entry(k).or_insert(0) += 1;
    let data = stream_bytes(c.l);
    let mode = if c.excl { "exclusion" } else { "inclusion" };
    let mut obs: Vec<(String, Obs)> = vec![];
    for buf in 1..=c.l.max(1) {
        obs.push((format!("buf={buf}"), call_hook(c, &data, buf)));
        if obs.last().map(|o| o.1.is_err()).unwrap_or(false) {
            break; // a panic is a violation already; unwinding is slow, do not repeat it for every chunk size
        }
    }
    let panicked = obs.last().map(|o| o.1.is_err()).unwrap_or(false);
    if !panicked {
        obs.push(("public/descending".into(), call_public(c, &data, true)));
    }
    let asc = if panicked { obs[obs.len() - 1].1.clone() } else { call_public(c, &data, false) };
    let n_calls = obs.len() as u64 + !panicked as u64;
    if verbose {
        for (n, o) in &obs {
            println!("  {n}: {}", show(o));
        }
        println!("  public/ascending: {}", show(&asc));
    }
    // 1. no panic
    for (n, o) in obs.iter().chain(std::iter::once(&("public/ascending".to_string(), asc.clone()))) {
        if let Err(p) = o {
            acc("panic");
            let site = p.split(" at ").next().unwrap_or("").chars().take(60).collect::<String>();
            violation(run, format!("panic mode={mode} markers={} msg={site}", c.markers.len().min(1)), format!("{n}: panic: {p}"), c.json());
            return n_calls;
        }
    }
    // 2. chunk-size independence (same argument order)
    if let Some((n, o)) = obs.iter().find(|(_, o)| !same(o, &obs[0].1)) {
        acc("chunk-dependent");
        violation(run, 
            format!("chunk-dependent mode={mode} markers={}", c.markers.len().min(1)),
            format!("result depends on the read-chunk size: {} gives {}, {n} gives {}", obs[0].0, show(&obs[0].1), show(o)),
            c.json(),
        );
        return n_calls;
    }
    // 3. the reference
    let exp = expect(c, &data);
    if verbose {
        println!("  expected: {}", match &exp {
            Expect::Digest { any_of, err_also_ok, .. } => format!("digest in {:?}{}", any_of.iter().map(|d| hex(&d[..6])).collect::<Vec<_>>(), if *err_also_ok { " or Err" } else { "" }),
            other => format!("{other:?}"),
        });
    }
    for (n, o) in [(&obs[0].0, &obs[0].1), (&"public/ascending".to_string(), &asc)] {
        let r = match o {
            Ok(r) => r,
            Err(_) => continue,
        };
        match (&exp, r) {
            (Expect::EmptyStream { .. }, Err(_)) => acc("empty-stream: explicit error"),
            (Expect::EmptyStream { digest_allowed }, Ok(d)) => {
                if *digest_allowed && *d == sha(c.alg, b"") {
                    acc("empty-stream: digest of nothing")
                } else {
                    acc("wrong-digest");
                    violation(run, format!("wrong-digest empty-stream mode={mode}"), format!("{n}: empty stream gives {}", show(o)), c.json());
                }
            }
            (Expect::MustErr { .. }, Err(_)) => acc("past-end: rejected"),
            (Expect::MustErr { offender }, Ok(_)) => {
                acc("past-end-accepted");
                violation(run, 
                    format!("past-end-accepted mode={mode} offender={offender}"),
                    format!("{n}: a range reaching past the end of the {}-byte stream is accepted: {} (ranges {:?})", c.l, show(o), c.ranges),
                    c.json(),
                );
            }
            (Expect::Digest { any_of, .. }, Ok(d)) => {
                if any_of.contains(d) {
                    acc("digest equals reference")
                } else {
                    acc("wrong-digest");
                    let class = if island_defect_digest(c, &data).as_ref() == Some(d) {
                        "marker-on-one-byte-island(offset||offset)"
                    } else if !c.markers.is_empty() {
                        "with-markers"
                    } else {
                        "no-markers"
                    };
                    violation(run, 
                        format!("wrong-digest mode={mode} class={class}"),
                        format!("{n}: digest {} differs from the reference {} (L={}, ranges {:?}, markers {:?})", hex(&d[..8]), hex(&any_of[0][..8]), c.l, c.ranges, c.markers),
                        c.json(),
                    );
                }
            }
            (Expect::Digest { err_also_ok, .. }, Err(e)) => {
                if *err_also_ok {
                    acc("empty range beyond the end: rejected")
                } else {
                    acc("rejected-valid-input");
                    violation(run, format!("rejected-valid-input mode={mode} err={e}"), format!("{n}: in-bounds ranges rejected with {e} (L={}, ranges {:?}, markers {:?})", c.l, c.ranges, c.markers), c.json());
                }
            }
            (Expect::NoReference, _) => acc("no reference (marker outside the defined domain): chunk-independent, no panic"),
        }
    }
    n_calls
}

// ------------------------------------------------------------------------------------------------
// enumeration

fn values(l: usize) -> Vec<u64> {
    (0..=(l as u64 + 1)).chain(HUGE).collect()
}

/// every multiset of <= r elements of 0..n, as sorted index vectors
fn multisets(n: usize, r: usize) -> Vec<Vec<u16>> {
    let mut out: Vec<Vec<u16>> = vec![vec![]];
    let mut frontier: Vec<Vec<u16>> = vec![vec![]];
    for _ in 0..r {
        let mut next = vec![];
        for m in &frontier {
            let from = m.last().copied().unwrap_or(0) as usize;
            for i in from..n {
                let mut x = m.clone();
                x.push(i as u16);
                next.push(x);
            }
        }
        out.extend(next.iter().cloned());
        frontier = next;
    }
    out
}

/// every set of <= r marker positions in 0..l, at least `min` markers
fn marker_sets(l: usize, min: usize, r: usize) -> Vec<Vec<u64>> {
    let mut out = vec![];
    if min == 0 {
        out.push(vec![]);
    }
    if r >= 1 && min <= 1 {
        for a in 0..l {
            out.push(vec![a as u64]);
        }
    }
    if r >= 2 {
        for a in 0..l {
            for b in a + 1..l {
                out.push(vec![a as u64, b as u64]);
            }
        }
    }
    out
}

struct Space {
    name: &'static str,
    max_l: usize,
    max_ranges: usize,
    markers: (usize, usize),
    algs: &'static [&'static str],
}

fn sweep(run: &Run, sp: &Space) {
    let mut total_cases = 0u64;
    let calls = AtomicU64::new(0);
    let nontrivial = AtomicU64::new(0);
    let sampled = AtomicU64::new(0);
    for l in 0..=sp.max_l {
        let vals = values(l);
        let pairs: Vec<(u64, u64)> = vals.iter().flat_map(|s| vals.iter().map(move |n| (*s, *n))).collect();
        let ms = multisets(pairs.len(), sp.max_ranges);
        let marks = marker_sets(l, sp.markers.0, sp.markers.1);
        total_cases += (ms.len() * marks.len() * 2 * sp.algs.len()) as u64;
        par::for_each(&ms, |m| {
            let mut out = std::collections::BTreeMap::new();
            let mut n_calls = 0u64;
            let mut n_nontrivial = 0u64;
            let ranges: Vec<(u64, u64)> = m.iter().map(|i| pairs[*i as usize]).collect();
            for mk in &marks {
                for excl in [true, false] {
                    for alg in sp.algs {
                        let c = Case { l, ranges: ranges.clone(), markers: mk.clone(), excl, alg, none_when_empty: true };
                        n_calls += judge(run, &c, false, &mut out);
                        // non-trivial: the reference defines a digest of a PROPER selection of a non-empty stream
                        if let Expect::Digest { proper_selection: true, .. } = expect(&c, &stream_bytes(l)) {
                            n_nontrivial += 1;
                            if l >= 4 && ranges.len() >= 2 && sampled.fetch_add(1, Ordering::Relaxed) % 9973 == 0 {
                                run.sample(c.json());
                            }
                        }
                    }
                }
            }
            calls.fetch_add(n_calls, Ordering::Relaxed);
            nontrivial.fetch_add(n_nontrivial, Ordering::Relaxed);
            for (k, n) in out {
                run.outcome_n(k, n);
            }
        });
    }
    run.space(
        &format!(
            "{}: L in 0..={}, every multiset of <= {} ranges with start,length in {{0..L+1}} u {{2^32-1, 2^63, 2^64-1}}, {}..={} markers, exclusion+inclusion, algs {:?}; each with every max_hash_buf in 1..=L and the public entry (two argument orders)",
            sp.name, sp.max_l, sp.max_ranges, sp.markers.0, sp.markers.1, sp.algs
        ),
        total_cases,
        true,
    );
    run.evals(calls.load(Ordering::Relaxed));
    run.nontrivial_n(nontrivial.load(Ordering::Relaxed));
    run.extra(&format!("elapsed_after_{}", sp.name), json!(run.elapsed()));
}

// ------------------------------------------------------------------------------------------------
// S-sched: shuttle behind the scheduler facade

static SYNC_OPS: AtomicU64 = AtomicU64::new(0);

fn sh_spawn(_name: String, f: Box<dyn FnOnce() + Send + 'static>) -> std::io::Result<()> {
    SYNC_OPS.fetch_add(1, Ordering::Relaxed);
    shuttle::thread::spawn(f);
    Ok(())
}

fn sh_channel() -> (SendFn, RecvFn) {
    let (tx, rx) = shuttle::sync::mpsc::channel::<AnyMsg>();
    (
        Box::new(move |m| {
            SYNC_OPS.fetch_add(1, Ordering::Relaxed);
            tx.send(m).is_ok()
        }),
        Box::new(move || {
            SYNC_OPS.fetch_add(1, Ordering::Relaxed);
            rx.recv().ok()
        }),
    )
}

/// Inline scheduler for the S-inp sweep: a hash worker runs to completion at its spawn point (one of the schedules
/// S-sched enumerates), channels are plain queues. No OS thread is created, so the sweep is not dominated by
/// thread creation; the pipeline code itself (chunking, hand-off, hasher moves) is the SDK's.
fn in_spawn(_name: String, f: Box<dyn FnOnce() + Send + 'static>) -> std::io::Result<()> {
    f();
    Ok(())
}

fn in_channel() -> (SendFn, RecvFn) {
    let q: Arc<Mutex<std::collections::VecDeque<AnyMsg>>> = Arc::new(Mutex::new(Default::default()));
    let q2 = q.clone();
    (
        Box::new(move |m| {
            q.lock().unwrap_or_else(|e| e.into_inner()).push_back(m);
            true
        }),
        Box::new(move || q2.lock().unwrap_or_else(|e| e.into_inner()).pop_front()),
    )
}

/// DFS scheduler that counts its decisions.
struct CountingDfs {
    inner: shuttle::scheduler::DfsScheduler,
    decisions: Arc<AtomicU64>,
    executions: Arc<AtomicU64>,
}

impl shuttle::scheduler::Scheduler for CountingDfs {
    fn new_execution(&mut self) -> Option<shuttle::scheduler::Schedule> {
        let r = self.inner.new_execution();
        if r.is_some() {
            self.executions.fetch_add(1, Ordering::Relaxed);
        }
        r
    }

    fn next_task(&mut self, runnable: &[&shuttle::scheduler::Task], current: Option<shuttle::scheduler::TaskId>, is_yielding: bool) -> Option<shuttle::scheduler::TaskId> {
        self.decisions.fetch_add(1, Ordering::Relaxed);
        self.inner.next_task(runnable, current, is_yielding)
    }

    fn next_u64(&mut self) -> u64 {
        self.inner.next_u64()
    }
}

#[derive(Clone, Debug)]
struct SchedCase {
    c: Case,
    buf: usize,
    /// inject a sticky I/O error at this stream call
    fail_at: Option<u64>,
}

impl SchedCase {
    fn json(&self) -> Value {
        let mut v = self.c.json();
        v["kind"] = json!("sched");
        v["buf"] = json!(self.buf);
        v["fail_at"] = json!(self.fail_at);
        v
    }
}

/// number of pipeline stages (chunks) of the longest hashed run
fn stages(c: &Case, buf: usize) -> usize {
    let l = c.l as u64;
    let excluded = |i: u64| c.ranges.iter().any(|(s, n)| *n > 0 && i >= *s && i - *s < *n);
    let mut best = 0usize;
    let mut cur = 0usize;
    for i in 0..l {
        if excluded(i) || (c.markers.contains(&i) && cur > 0) {
            best = best.max(cur);
            cur = 0;
        }
        if !excluded(i) {
            cur += 1;
        }
    }
    best = best.max(cur);
    best.div_ceil(buf)
}

fn sched_body(sc: &SchedCase) -> Result<Vec<u8>, String> {
    let data = stream_bytes(sc.c.l);
    let plan = match sc.fail_at {
        Some(k) => Plan::one(k, Dev::FailSticky),
        None => Plan::clean(),
    };
    let mut s = FaultStream::new(data, plan);
    c2pa::verif_hooks::hash_stream_with_buf(sc.c.alg, &mut s, sc.c.hash_ranges(true), sc.c.excl, sc.buf).map_err(|e| format!("{e:?}"))
}

struct SchedResult {
    executions: u64,
    decisions: u64,
    results: BTreeSet<String>,
    failure: Option<String>,
}

/// Explore ALL interleavings of one case (hooks must be installed by the caller).
fn explore(sc: &SchedCase) -> SchedResult {
    let results: Arc<Mutex<BTreeSet<String>>> = Arc::new(Mutex::new(BTreeSet::new()));
    let decisions = Arc::new(AtomicU64::new(0));
    let executions = Arc::new(AtomicU64::new(0));
    let (r2, sc2) = (results.clone(), sc.clone());
    let sched = CountingDfs { inner: shuttle::scheduler::DfsScheduler::new(None, false), decisions: decisions.clone(), executions: executions.clone() };
    let mut cfg = shuttle::Config::default();
    cfg.failure_persistence = shuttle::FailurePersistence::None;
    let out = par::guard(move || {
        let runner = shuttle::Runner::new(sched, cfg);
        runner.run(move || {
            let r = match sched_body(&sc2) {
                Ok(d) => format!("Ok({})", hex(&d)),
                Err(e) => format!("Err({})", e.chars().take(80).collect::<String>()),
            };
            r2.lock().unwrap_or_else(|e| e.into_inner()).insert(r);
        })
    });
    let set = results.lock().unwrap_or_else(|e| e.into_inner()).clone();
    SchedResult { executions: executions.load(Ordering::Relaxed), decisions: decisions.load(Ordering::Relaxed), results: set, failure: out.err() }
}

fn sched_cases(run: &Run) -> Vec<SchedCase> {
    let max_l = run.tier.pick(6usize, 8usize);
    let max_stages = run.tier.pick(4usize, 5usize);
    let mut shapes: Vec<Case> = vec![];
    for l in 2..=max_l {
        // whole stream; one exclusion in the middle (two hashed runs); a marker splitting the stream; inclusion of an inner run
        shapes.push(Case { l, ranges: vec![], markers: vec![], excl: true, alg: "sha256", none_when_empty: true });
        if l >= 5 {
            shapes.push(Case { l, ranges: vec![(2, 1)], markers: vec![], excl: true, alg: "sha256", none_when_empty: true });
            shapes.push(Case { l, ranges: vec![], markers: vec![2], excl: true, alg: "sha384", none_when_empty: true });
            shapes.push(Case { l, ranges: vec![(1, l as u64 - 1)], markers: vec![], excl: false, alg: "sha512", none_when_empty: true });
        }
    }
    let mut v = vec![];
    for c in shapes {
        for buf in 1..=c.l {
            let st = stages(&c, buf);
            if (2..=max_stages).contains(&st) {
                v.push(SchedCase { c: c.clone(), buf, fail_at: None });
            }
        }
    }
    v
}

fn judge_sched(run: &Run, sc: &SchedCase, verbose: bool) -> (u64, u64) {
    let data = stream_bytes(sc.c.l);
    let r = explore(sc);
    if verbose {
        println!("  schedules explored: {}, scheduling decisions: {}, distinct results: {:?}, failure: {:?}", r.executions, r.decisions, r.results, r.failure);
    }
    run.evals(r.executions);
    let shape = format!("mode={} markers={}", if sc.c.excl { "exclusion" } else { "inclusion" }, sc.c.markers.len());
    if let Some(f) = &r.failure {
        let kind = if f.contains("deadlock") { "deadlock" } else { "panic" };
        run.outcome(format!("sched: {kind}"));
        violation(run, format!("sched-{kind} {shape} fault={}", sc.fail_at.is_some()), format!("shuttle execution failed after {} schedules: {}", r.executions, f.chars().take(300).collect::<String>()), sc.json());
        return (r.executions, r.decisions);
    }
    match sc.fail_at {
        None => {
            let want = match expect(&sc.c, &data) {
                Expect::Digest { any_of, .. } => any_of.iter().map(|d| format!("Ok({})", hex(d))).collect::<Vec<_>>(),
                _ => kit::ev::machinery("C13 sched: case without a reference digest"),
            };
            if r.results.len() != 1 {
                run.outcome("sched: schedule-dependent digest");
                violation(run, format!("schedule-dependent-digest {shape}"), format!("{} schedules give {} different results: {:?}", r.executions, r.results.len(), r.results.iter().map(|s| s.chars().take(24).collect::<String>()).collect::<Vec<_>>()), sc.json());
            } else if !want.contains(r.results.iter().next().unwrap_or(&String::new())) {
                // the S-inp part reports wrong digests with their own keys; keep the key distinct here
                run.outcome("sched: same wrong digest on every schedule");
                violation(run, format!("sched-wrong-digest {shape}"), format!("all {} schedules give {:?}, reference {:?}", r.executions, r.results, want), sc.json());
            } else {
                run.outcome("sched: reference digest on every schedule");
            }
        }
        Some(k) => {
            let bad: Vec<&String> = r.results.iter().filter(|s| !(s.starts_with("Err(") && kit::streams::is_injected_text(s))).collect();
            if !bad.is_empty() {
                run.outcome("sched: injected error lost");
                violation(run, format!("sched-injected-error-lost {shape}"), format!("stream fails (sticky) at call {k}; some of the {} schedules end with {:?}", r.executions, bad.iter().map(|s| s.chars().take(40).collect::<String>()).collect::<Vec<_>>()), sc.json());
            } else {
                run.outcome("sched: injected error returned on every schedule");
            }
        }
    }
    (r.executions, r.decisions)
}

fn sched_phase(run: &Run) -> Vec<SchedCase> {
    let hooks = SchedHooks { spawn: sh_spawn, channel: sh_channel };
    let base = sched_cases(run);
    // number of stream calls of the undisturbed run (deterministic: the reader thread alone touches the stream)
    let mut cases: Vec<SchedCase> = vec![];
    for sc in &base {
        let mut s = FaultStream::new(stream_bytes(sc.c.l), Plan::clean());
        let r = c2pa::verif_hooks::hash_stream_with_buf(sc.c.alg, &mut s, sc.c.hash_ranges(true), sc.c.excl, sc.buf);
        if r.is_err() {
            kit::ev::machinery(format!("C13 sched: undisturbed free-running call fails: {r:?}"));
        }
        let calls = s.snapshot().calls;
        cases.push(sc.clone());
        for k in 0..calls {
            cases.push(SchedCase { fail_at: Some(k), ..sc.clone() });
        }
    }
    run.space("S-sched: (input shape with L in 2..=6 (quick) / 2..=8 (thorough), max_hash_buf giving 2..=4 (quick) / 2..=5 (thorough) pipeline stages, no fault | sticky stream error at call k for every k); ALL interleavings of each by shuttle DFS (no iteration bound)", cases.len() as u64, true);
    sched::install(Some(hooks));
    let (mut execs, mut decs, mut max_sched) = (0u64, 0u64, 0u64);
    let ops0 = SYNC_OPS.load(Ordering::Relaxed);
    for (i, sc) in cases.iter().enumerate() {
        let (e, d) = judge_sched(run, sc, false);
        execs += e;
        decs += d;
        max_sched = max_sched.max(e);
        if sc.fail_at.is_none() {
            run.nontrivial(format!("sched/{i}"));
            if i % 7 == 0 {
                let mut v = sc.json();
                v["schedules_explored"] = json!(e);
                run.sample(v);
            }
        } else if e > 1 {
            run.nontrivial(format!("sched/{i}"));
        }
    }
    sched::install(None);
    par::quiet_panics(); // shuttle installed its own panic hook
    run.states(execs);
    run.transitions(decs);
    run.traces(execs);
    run.extra("schedules_explored", json!(execs));
    run.extra("max_schedules_for_one_input", json!(max_sched));
    run.extra("hooked_spawn_send_recv_operations", json!(SYNC_OPS.load(Ordering::Relaxed) - ops0));

    cases
}

/// Free-running pass of the S-sched bodies with real threads (hooks uninstalled): not an enumeration, a sanity pass.
fn free_running(run: &Run, cases: &[SchedCase]) {
    let reps = run.tier.pick(10u64, 400u64);
    let n = cases.len() as u64 * reps;
    par::for_each_index(n, |i| {
        let sc = &cases[(i % cases.len() as u64) as usize];
        let r = par::guard(|| sched_body(sc));
        let ok = match (&r, sc.fail_at) {
            (Ok(Ok(d)), None) => matches!(expect(&sc.c, &stream_bytes(sc.c.l)), Expect::Digest { any_of, .. } if any_of.contains(d)),
            (Ok(Err(e)), Some(_)) => kit::streams::is_injected_text(e),
            _ => false,
        };
        if !ok {
            violation(run, "free-running-pipeline".to_string(), format!("real threads: {:?}", r.map(|x| x.map(|d| hex(&d[..8])))), sc.json());
        }
    });
    run.evals(n);
    run.extra("free_running_executions", json!(n));
}

pub fn run(run: &Run, replay: Option<&Value>) {
    run.rule(
        "S-inp: the complete product described under 'spaces' is executed on hash_stream_with_buf for every chunk size and on the public hash_stream_by_alg; \
         evaluations = SDK hashing calls. non-trivial = (L, ranges, markers, mode, alg) tuples for which the reference defines the digest of a PROPER selection \
         (not the whole stream, not an error), counted once per tuple, plus S-sched inputs whose DFS explored more than one schedule. \
         S-sched: states = schedules (complete executions) explored by the depth-first scheduler, transitions = scheduling decisions taken.",
    );
    run.assume("reference digests come from the sha2 crate called directly on the reference selection (trusted)");
    run.assume("L = 0: an explicit Err is accepted as well as SHA(\"\") (decision recorded in DESIGN.md C13); markers inside excluded regions and markers in inclusion mode have no reference in the property: only chunk-size independence and absence of panics are demanded there");
    run.assume("an EMPTY range that starts beyond the end may be rejected or ignored (the property does not say whether it 'reaches past the end')");
    run.assume("shuttle's DfsScheduler enumerates every interleaving at its scheduling points (spawn, channel send/recv, thread exit); SHA-2 updates between those points are thread-local computations");
    run.assume("markers are built as the BMFF hasher builds them: HashRange::new(p,1) + set_bmff_offset(p)");
    run.assume("the S-inp spaces A/B/C run the pipeline through the scheduler facade with an inline scheduler (each hash worker runs to completion at its spawn point — one of the schedules S-sched enumerates), so that 10^6-10^8 hashing calls are not dominated by OS thread creation; schedule independence is decided by S-sched, and space R plus the free-running pass use real worker threads");

    if let Some(v) = replay {
        run.eval();
        if v["kind"] == "sched" {
            let sc = SchedCase { c: Case::from_json(v), buf: v["buf"].as_u64().unwrap_or(1) as usize, fail_at: v["fail_at"].as_u64() };
            println!("replay S-sched case {}", sc.json());
            sched::install(Some(SchedHooks { spawn: sh_spawn, channel: sh_channel }));
            judge_sched(run, &sc, true);
            sched::install(None);
        } else {
            let c = Case::from_json(v);
            println!("replay S-inp case {}", c.json());
            let mut out = std::collections::BTreeMap::new();
            judge(run, &c, true, &mut out);
        }
        return;
    }

    // The subject is a pure function of fixed inputs (no identifiers, no clock): if one pipelined call with real
    // worker threads gives two different results, that is not harness nondeterminism but the property failing.
    {
        let c = Case { l: 6, ranges: vec![(2, 1)], markers: vec![4], excl: true, alg: "sha256", none_when_empty: true };
        let d = stream_bytes(6);
        let first = call_hook(&c, &d, 1);
        for _ in 0..50 {
            run.eval();
            let again = call_hook(&c, &d, 1);
            if !same(&first, &again) {
                violation(run, "nondeterministic-digest real-threads".to_string(), format!("the same hashing call (max_hash_buf=1, real worker threads) gives {} and {}", show(&first), show(&again)), c.json());
                break;
            }
        }
    }

    // S-sched first, single-threaded (the facade hooks are process-wide)
    let sched_inputs = sched_phase(run);

    // S-inp
    let q = !run.tier.is_thorough();
    let spaces: Vec<Space> = if q {
        vec![
            Space { name: "A(no markers)", max_l: 8, max_ranges: 2, markers: (0, 0), algs: &["sha256"] },
            Space { name: "B(markers)", max_l: 6, max_ranges: 2, markers: (1, 2), algs: &["sha256"] },
            Space { name: "C(other algorithms)", max_l: 4, max_ranges: 2, markers: (0, 2), algs: &["sha384", "sha512"] },
        ]
    } else {
        vec![
            Space { name: "A(no markers)", max_l: 12, max_ranges: 2, markers: (0, 0), algs: &["sha256"] },
            Space { name: "A3(no markers, 3 ranges)", max_l: 10, max_ranges: 3, markers: (0, 0), algs: &["sha256"] },
            Space { name: "B(markers)", max_l: 9, max_ranges: 2, markers: (1, 2), algs: &["sha256"] },
            Space { name: "B3(markers, 3 ranges)", max_l: 5, max_ranges: 3, markers: (1, 2), algs: &["sha256"] },
            Space { name: "C(other algorithms)", max_l: 6, max_ranges: 2, markers: (0, 2), algs: &["sha384", "sha512"] },
        ]
    };
    run.extra("elapsed_after_sched_phase", json!(run.elapsed()));
    // S-inp under the inline scheduler (see in_spawn)
    sched::install(Some(SchedHooks { spawn: in_spawn, channel: in_channel }));
    for sp in &spaces {
        sweep(run, sp);
    }
    sched::install(None);
    // real OS threads: a smaller S-inp space and the free-running pass of the S-sched inputs
    sweep(run, &Space { name: "R(real worker threads)", max_l: run.tier.pick(3, 6), max_ranges: 2, markers: (0, run.tier.pick(0, 1)), algs: &["sha256"] });
    free_running(run, &sched_inputs);
    run.extra("elapsed_after_free_running", json!(run.elapsed()));
    // `Some(vec![])` instead of `None`
    for l in 0..=4usize {
        for excl in [true, false] {
            let c = Case { l, ranges: vec![], markers: vec![], excl, alg: "sha256", none_when_empty: false };
            // Some(empty) means "no ranges": the whole stream in both modes as far as the SDK documents; the reference
            // for inclusion mode with an empty list is the digest of nothing OR the whole stream (the text is silent): judged for panics/chunking only
            let data = stream_bytes(l);
            let a = call_hook(&c, &data, 1);
            let b = call_public(&c, &data, true);
            run.evals(2);
            if a.is_err() || b.is_err() || !same(&a, &b) {
                violation(run, "empty-range-list".to_string(), format!("Some(vec![]) : {} vs {}", show(&a), show(&b)), c.json());
            }
        }
    }
    let counts = SEEN.lock().unwrap_or_else(|e| e.into_inner()).clone();
    run.extra("violating_cases_by_key", json!(counts));
}

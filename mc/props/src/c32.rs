//! C32 — c2patool never clobbers outputs and its signed files validate.
//! S-seq over file-system states, level `exploration`: the REAL c2patool binary (built from the repo's working tree by
//! /verif/tools/build_c2patool.sh) is run on every command line of a finite product and on every PAIR of consecutive
//! invocations (the second sees whatever the first left behind), each in its own fresh temp directory.
//!
//! Oracle (from the property text, nothing more):
//!  * an invocation WITHOUT -f leaves every path that existed before it byte-identical (files), of the same kind, and —
//!    for pre-existing directories below the working directory — with no entries added;
//!  * a sign invocation that exits 0 ("reports the file as signed") leaves an output that the SDK, in-process, reads back
//!    Valid/Trusted (with the sidecar the tool wrote when the manifest is not embedded).
//! With -f nothing is demanded of the output paths (force was requested).
//!
//! Mutants caught (tools/mutant_run.sh F <diff> C32 quick):
//!  * /verif/mutants/C32-force-inverted.diff   (`!args.force` -> `args.force` in the sign branch: existing output overwritten without -f)
//!      -> `clobber what=output mode=sign out=file ... f=0 ...`, `clobber what=input-as-output ...`
//!  * /verif/mutants/C32-folder-no-exists-check.diff (folder mode: existing folder wiped without -f)
//!      -> `clobber what=output-folder-entry mode=report|report-detailed|ingredient out=dir ... how=removed|changed`

use std::{
    collections::BTreeMap,
    io::Read,
    path::{Path, PathBuf},
    process::{Command, Stdio},
    sync::Mutex,
    time::{Duration, Instant},
};

use kit::{
    fsnap::{self, Node, Snap},
    par, sdk, Run,
};
use serde_json::{json, Value};

const REMOTE_URL: &str = "http://127.0.0.1:9/verif-remote.c2pa";
const FORMATS: [&str; 3] = ["png", "jpeg", "mp4"];

#[derive(Clone, Copy, PartialEq, Eq, Debug)]
enum Mode {
    Sign,
    Report,
    Detailed,
    Ingredient,
}
impl Mode {
    fn name(self) -> &'static str {
        match self {
            Mode::Sign => "sign",
            Mode::Report => "report",
            Mode::Detailed => "report-detailed",
            Mode::Ingredient => "ingredient",
        }
    }
    fn parse(s: &str) -> Mode {
        match s {
            "sign" => Mode::Sign,
            "report" => Mode::Report,
            "report-detailed" => Mode::Detailed,
            "ingredient" => Mode::Ingredient,
            _ => kit::ev::machinery(format!("C32 replay: bad mode {s}")),
        }
    }
    fn is_folder(self) -> bool {
        self != Mode::Sign
    }
}

#[derive(Clone, Copy, PartialEq, Eq, Debug)]
enum PreOut {
    Absent,
    File,
    Dir,
}
impl PreOut {
    fn name(self) -> &'static str {
        match self {
            PreOut::Absent => "absent",
            PreOut::File => "file",
            PreOut::Dir => "dir",
        }
    }
    fn parse(s: &str) -> PreOut {
        match s {
            "absent" => PreOut::Absent,
            "file" => PreOut::File,
            "dir" => PreOut::Dir,
            _ => kit::ev::machinery(format!("C32 replay: bad pre state {s}")),
        }
    }
}

#[derive(Clone, Copy, PartialEq, Eq, Debug)]
enum Input {
    /// in.<ext>: the tiny kit asset without a manifest
    Unsigned,
    /// signed.<ext>: the same asset signed in-process by the SDK (reads Valid)
    Signed,
    /// out.<ext>: whatever a previous invocation produced (may be absent)
    PrevOut,
}
impl Input {
    fn name(self) -> &'static str {
        match self {
            Input::Unsigned => "unsigned",
            Input::Signed => "signed",
            Input::PrevOut => "prev-out",
        }
    }
    fn parse(s: &str) -> Input {
        match s {
            "unsigned" => Input::Unsigned,
            "signed" => Input::Signed,
            "prev-out" => Input::PrevOut,
            _ => kit::ev::machinery(format!("C32 replay: bad input {s}")),
        }
    }
}

/// One command line.
#[derive(Clone, Copy, Debug)]
struct Inv {
    mode: Mode,
    input: Input,
    /// -o names the input path itself ("same as input") instead of out.<ext> / outdir
    same_as_input: bool,
    force: bool,
    sidecar: bool,
    remote: bool,
}

/// File-system state before the first invocation (only the dimensions relevant to that invocation vary).
#[derive(Clone, Copy, Debug)]
struct Pre {
    /// state of the path the first invocation names with -o (out.<ext> for sign, outdir for folder modes)
    out: PreOut,
    /// a .c2pa sidecar already exists next to the first invocation's output path
    sidecar: bool,
}

#[derive(Clone, Debug)]
struct Case {
    fmt: &'static str,
    pre: Pre,
    invs: Vec<Inv>,
}

impl Inv {
    fn to_json(&self) -> Value {
        json!({"mode": self.mode.name(), "input": self.input.name(), "same_as_input": self.same_as_input,
               "force": self.force, "sidecar": self.sidecar, "remote": self.remote})
    }
    fn from_json(v: &Value) -> Inv {
        Inv {
            mode: Mode::parse(v["mode"].as_str().unwrap_or("")),
            input: Input::parse(v["input"].as_str().unwrap_or("")),
            same_as_input: v["same_as_input"].as_bool().unwrap_or(false),
            force: v["force"].as_bool().unwrap_or(false),
            sidecar: v["sidecar"].as_bool().unwrap_or(false),
            remote: v["remote"].as_bool().unwrap_or(false),
        }
    }
    fn input_path(&self, ext: &str) -> String {
        match self.input {
            Input::Unsigned => format!("in.{ext}"),
            Input::Signed => format!("signed.{ext}"),
            Input::PrevOut => format!("out.{ext}"),
        }
    }
    fn output_path(&self, ext: &str) -> String {
        if self.same_as_input {
            self.input_path(ext)
        } else if self.mode.is_folder() {
            "outdir".to_string()
        } else {
            format!("out.{ext}")
        }
    }
    fn args(&self, ext: &str) -> Vec<String> {
        let mut a = vec![self.input_path(ext)];
        match self.mode {
            Mode::Sign => {
                a.push("-m".into());
                a.push("m.json".into());
            }
            Mode::Report => {}
            Mode::Detailed => a.push("--detailed".into()),
            Mode::Ingredient => a.push("--ingredient".into()),
        }
        a.push("-o".into());
        a.push(self.output_path(ext));
        if self.force {
            a.push("-f".into());
        }
        if self.sidecar {
            a.push("--sidecar".into());
        }
        if self.remote {
            a.push("-r".into());
            a.push(REMOTE_URL.into());
        }
        a
    }
}

impl Case {
    fn to_json(&self) -> Value {
        json!({"fmt": self.fmt, "pre_out": self.pre.out.name(), "pre_sidecar": self.pre.sidecar,
               "invocations": self.invs.iter().map(|i| i.to_json()).collect::<Vec<_>>()})
    }
    fn from_json(v: &Value) -> Case {
        let fmt = FORMATS
            .iter()
            .find(|f| Some(**f) == v["fmt"].as_str())
            .copied()
            .unwrap_or_else(|| kit::ev::machinery("C32 replay: bad fmt"));
        Case {
            fmt,
            pre: Pre { out: PreOut::parse(v["pre_out"].as_str().unwrap_or("")), sidecar: v["pre_sidecar"].as_bool().unwrap_or(false) },
            invs: v["invocations"].as_array().map(|a| a.iter().map(Inv::from_json).collect()).unwrap_or_default(),
        }
    }
}

/// Every single invocation together with the pre-states relevant to it (depth 1 space for one format).
fn first_invocations() -> Vec<(Pre, Inv)> {
    let mut v = vec![];
    let bools = [false, true];
    // sign: output {absent, file, dir, same as input} x -f x --sidecar x existing sidecar x remote
    for same in bools {
        let outs: &[PreOut] = if same { &[PreOut::File] } else { &[PreOut::Absent, PreOut::File, PreOut::Dir] };
        for &out in outs {
            for pre_sc in bools {
                for force in bools {
                    for sidecar in bools {
                        for remote in bools {
                            v.push((
                                Pre { out, sidecar: pre_sc },
                                Inv { mode: Mode::Sign, input: Input::Unsigned, same_as_input: same, force, sidecar, remote },
                            ));
                        }
                    }
                }
            }
        }
    }
    // folder modes: output {absent, file, dir, same as input} x -f x input {signed, unsigned}
    for mode in [Mode::Report, Mode::Detailed, Mode::Ingredient] {
        for same in bools {
            let outs: &[PreOut] = if same { &[PreOut::File] } else { &[PreOut::Absent, PreOut::File, PreOut::Dir] };
            for &out in outs {
                for force in bools {
                    for input in [Input::Signed, Input::Unsigned] {
                        v.push((
                            Pre { out, sidecar: false },
                            Inv { mode, input, same_as_input: same, force, sidecar: false, remote: false },
                        ));
                    }
                }
            }
        }
    }
    v
}

/// Every command line usable as a second invocation (no pre-state: it sees what the first left).
/// `full` = the whole product (68 lines); otherwise a core subset (20 lines): no --remote, folder modes only towards outdir,
/// sign only from the unsigned input plus forced in-place re-signing of the previous output.
fn second_invocations(full: bool) -> Vec<Inv> {
    let mut v = vec![];
    let bools = [false, true];
    for input in [Input::Unsigned, Input::PrevOut] {
        for same in bools {
            for force in bools {
                for sidecar in bools {
                    for remote in bools {
                        let core = !remote && (input == Input::Unsigned || (same && force));
                        if full || core {
                            v.push(Inv { mode: Mode::Sign, input, same_as_input: same, force, sidecar, remote });
                        }
                    }
                }
            }
        }
    }
    for mode in [Mode::Report, Mode::Detailed, Mode::Ingredient] {
        for input in [Input::Signed, Input::Unsigned, Input::PrevOut] {
            for same in bools {
                for force in bools {
                    let core = !same && input != Input::Unsigned && (mode != Mode::Detailed || input == Input::Signed);
                    if full || core {
                        v.push(Inv { mode, input, same_as_input: same, force, sidecar: false, remote: false });
                    }
                }
            }
        }
    }
    v
}

struct Tool {
    bin: PathBuf,
}

struct Seeds {
    /// fmt -> (ext, unsigned bytes, signed bytes)
    by_fmt: BTreeMap<&'static str, (&'static str, Vec<u8>, Vec<u8>)>,
    certs: Vec<u8>,
    key: Vec<u8>,
}

fn build_tool() -> Tool {
    let out = Command::new("/verif/tools/build_c2patool.sh")
        .stdin(Stdio::null())
        .output()
        .unwrap_or_else(|e| kit::ev::machinery(format!("cannot run build_c2patool.sh: {e}")));
    if !out.status.success() {
        kit::ev::machinery(format!("c2patool build failed: {}", String::from_utf8_lossy(&out.stderr)));
    }
    let s = String::from_utf8_lossy(&out.stdout);
    let bin = PathBuf::from(s.lines().last().unwrap_or("").trim());
    if !bin.is_file() {
        kit::ev::machinery(format!("c2patool binary not found at {}", bin.display()));
    }
    Tool { bin }
}

fn seeds() -> Seeds {
    let mut by_fmt = BTreeMap::new();
    let signer = sdk::fixture_signer("es256");
    for f in FORMATS {
        let a = kit::assets::by_name(f);
        let signed = sdk::sign_simple(signer.as_ref(), a.mime, &a.data, &[]);
        match sdk::read(sdk::ctx(), a.mime, &signed) {
            Ok(r) if sdk::state_name(r.validation_state()) != "Invalid" => {}
            Ok(r) => kit::ev::machinery(format!("C32 seed {f} reads {:?}", r.validation_state())),
            Err(e) => kit::ev::machinery(format!("C32 seed {f} unreadable: {e:?}")),
        }
        by_fmt.insert(f, (a.ext, a.data.clone(), signed));
    }
    let rd = |p: &str| std::fs::read(p).unwrap_or_else(|e| kit::ev::machinery(format!("cannot read {p}: {e}")));
    Seeds { by_fmt, certs: rd("/repo/cli/sample/es256_certs.pem"), key: rd("/repo/cli/sample/es256_private.key") }
}

const MANIFEST: &str = r#"{
  "alg": "es256",
  "private_key": "es256_private.key",
  "sign_cert": "es256_certs.pem",
  "claim_generator_info": [{"name": "verif-c32", "version": "1"}],
  "title": "verif",
  "assertions": [{"label": "org.verif.note", "data": {"k": "v"}}]
}"#;

struct Exec {
    code: Option<i32>,
    timed_out: bool,
    stdout: String,
    stderr: String,
}

fn run_tool(tool: &Tool, top: &Path, args: &[String]) -> Exec {
    let w = top.join("w");
    let mut child = Command::new(&tool.bin)
        .args(args)
        .current_dir(&w)
        .env_clear()
        .env("PATH", "/usr/bin:/bin")
        .env("HOME", top.join("home"))
        .env("XDG_CONFIG_HOME", top.join("home/.config"))
        .env("TMPDIR", top.join("tmp"))
        .stdin(Stdio::null())
        .stdout(Stdio::piped())
        .stderr(Stdio::piped())
        .spawn()
        .unwrap_or_else(|e| kit::ev::machinery(format!("cannot spawn c2patool: {e}")));
    // outputs are small (a manifest report); read them after exit, with a watchdog for hangs
    let start = Instant::now();
    let mut timed_out = false;
    let status = loop {
        match child.try_wait() {
            Ok(Some(s)) => break Some(s),
            Ok(None) => {
                if start.elapsed() > Duration::from_secs(120) {
                    let _ = child.kill();
                    let _ = child.wait();
                    timed_out = true;
                    break None;
                }
                std::thread::sleep(Duration::from_millis(2));
            }
            Err(e) => kit::ev::machinery(format!("wait failed: {e}")),
        }
    };
    let mut stdout = String::new();
    let mut stderr = String::new();
    if let Some(mut o) = child.stdout.take() {
        let mut b = vec![];
        let _ = o.read_to_end(&mut b);
        stdout = String::from_utf8_lossy(&b).into_owned();
    }
    if let Some(mut o) = child.stderr.take() {
        let mut b = vec![];
        let _ = o.read_to_end(&mut b);
        stderr = String::from_utf8_lossy(&b).into_owned();
    }
    Exec { code: status.and_then(|s| s.code()), timed_out, stdout, stderr }
}

/// Read a signed output the way a user of the SDK would: embedded manifest, else the .c2pa next to it.
fn verify_signed(path: &Path) -> Result<String, String> {
    let first = par::guard(|| c2pa::Reader::from_context(sdk::ctx()).with_file(path));
    let first = match first {
        Err(p) => return Err(format!("panic while reading: {p}")),
        Ok(r) => r,
    };
    let reader = match first {
        Ok(r) => r,
        Err(e) => {
            // remote-only reference with fetching disabled, or nothing embedded: use the sidecar the tool wrote
            let sc = path.with_extension("c2pa");
            let kind = sdk::err_kind(&e);
            if (kind == "RemoteManifestUrl" || kind == "JumbfNotFound" || kind == "RemoteManifestFetch") && sc.is_file() {
                let data = std::fs::read(&sc).map_err(|e| format!("sidecar unreadable: {e}"))?;
                let fmt = c2pa::format_from_path(path).unwrap_or_default();
                let mut f = std::fs::File::open(path).map_err(|e| format!("output unreadable: {e}"))?;
                match par::guard(|| c2pa::Reader::from_context(sdk::ctx()).with_manifest_data_and_stream(&data, &fmt, &mut f)) {
                    Err(p) => return Err(format!("panic while reading with sidecar: {p}")),
                    Ok(Err(e)) => return Err(format!("read with sidecar fails: {e:?}")),
                    Ok(Ok(r)) => r,
                }
            } else {
                return Err(format!("read fails: {e:?}"));
            }
        }
    };
    let st = sdk::state_name(reader.validation_state());
    if st == "Invalid" {
        Err(format!("reads back Invalid: {:?}", kit::canon::codes(&reader)))
    } else {
        Ok(st.to_string())
    }
}

fn setup(top: &Path, seeds: &Seeds, case: &Case) {
    let w = top.join("w");
    for d in ["w", "home/.config", "tmp"] {
        std::fs::create_dir_all(top.join(d)).unwrap_or_else(|e| kit::ev::machinery(format!("mkdir: {e}")));
    }
    let (ext, unsigned, signed) = &seeds.by_fmt[case.fmt];
    let wr = |name: &str, data: &[u8]| {
        std::fs::write(w.join(name), data).unwrap_or_else(|e| kit::ev::machinery(format!("write {name}: {e}")))
    };
    wr(&format!("in.{ext}"), unsigned);
    wr(&format!("signed.{ext}"), signed);
    wr("m.json", MANIFEST.as_bytes());
    wr("es256_certs.pem", &seeds.certs);
    wr("es256_private.key", &seeds.key);
    let first = case.invs[0];
    let out = first.output_path(ext);
    if !first.same_as_input {
        match case.pre.out {
            PreOut::Absent => {}
            PreOut::File => wr(&out, b"PRE-EXISTING OUTPUT FILE (must survive without -f)"),
            PreOut::Dir => {
                std::fs::create_dir_all(w.join(&out)).unwrap_or_else(|e| kit::ev::machinery(format!("mkdir: {e}")));
                wr(&format!("{out}/keep.txt"), b"PRE-EXISTING ENTRY (must survive without -f)");
                wr(&format!("{out}/manifest_store.json"), b"PRE-EXISTING REPORT (must survive without -f)");
            }
        }
    }
    if case.pre.sidecar {
        let sc = Path::new(&out).with_extension("c2pa");
        wr(sc.to_str().unwrap_or("out.c2pa"), b"PRE-EXISTING SIDECAR (must survive without -f)");
    }
}

/// What one step did, and whether it broke the property.
struct StepObs {
    exit: String,
    changes: Vec<String>,
    violations: Vec<(String, String)>,
    nontrivial: bool,
    verified: Option<Result<String, String>>,
    stderr_head: String,
    stdout_len: usize,
}

fn classify_path(p: &Path, inv: &Inv, ext: &str) -> &'static str {
    let out = inv.output_path(ext);
    let s = p.to_string_lossy();
    let sc = Path::new(&out).with_extension("c2pa");
    if *p == *sc {
        "sidecar"
    } else if s == out {
        if inv.same_as_input {
            "input-as-output"
        } else if inv.mode.is_folder() {
            "output-folder"
        } else {
            "output"
        }
    } else if p.starts_with(&out) {
        if inv.mode.is_folder() {
            "output-folder-entry"
        } else {
            "output-dir-entry"
        }
    } else if s == inv.input_path(ext) {
        "input"
    } else {
        "other"
    }
}

fn step(tool: &Tool, top: &Path, fmt: &str, ext: &str, inv: &Inv) -> StepObs {
    let w = top.join("w");
    let before: Snap = fsnap::snapshot(&w);
    let out = inv.output_path(ext);
    let sc = Path::new(&out).with_extension("c2pa");
    let state_of = |p: &Path| match before.get(p) {
        None => "absent",
        Some(n) => n.kind(),
    };
    let out_state = state_of(Path::new(&out));
    let sc_state = state_of(&sc);
    // non-trivial: something the invocation may write to is already there
    let nontrivial = out_state != "absent" || (inv.sidecar && sc_state != "absent");
    let ex = run_tool(tool, top, &inv.args(ext));
    let after: Snap = fsnap::snapshot(&w);
    let exit = if ex.timed_out {
        "timeout".to_string()
    } else {
        match ex.code {
            Some(0) => "exit0".to_string(),
            Some(c) => format!("exit{c}"),
            None => "signal".to_string(),
        }
    };
    let mut violations = vec![];
    let ctx = format!(
        "mode={} out={} sidecar_pre={} f={} sidecar={} remote={} input={} fmt={}",
        inv.mode.name(),
        if inv.same_as_input { "same-as-input" } else { out_state },
        sc_state,
        inv.force as u8,
        inv.sidecar as u8,
        inv.remote as u8,
        inv.input.name(),
        fmt
    );
    if ex.timed_out {
        kit::ev::machinery(format!("c2patool hung (>120 s) on {:?} [{ctx}]", inv.args(ext)));
    }
    if exit == "signal" {
        violations.push((format!("crash {ctx}"), format!("c2patool died on a signal: {}", head(&ex.stderr))));
    }
    if !inv.force {
        for (p, how) in fsnap::not_preserved(&before, &after) {
            let what = classify_path(&p, inv, ext);
            violations.push((
                format!("clobber what={what} {ctx} how={}", how.split(' ').next().unwrap_or("")),
                format!("without -f, pre-existing {} `{}` was {how} by `c2patool {}` ({exit})", what, p.display(), inv.args(ext).join(" ")),
            ));
        }
        // entries added below a pre-existing directory (the working directory itself is not an output)
        for p in after.keys() {
            if before.contains_key(p) {
                continue;
            }
            let mut anc = p.parent();
            while let Some(a) = anc {
                if a.as_os_str().is_empty() {
                    break;
                }
                if matches!(before.get(a), Some(Node::Dir)) {
                    let what = classify_path(a, inv, ext);
                    violations.push((
                        format!("clobber what={what} {ctx} how=entry-added"),
                        format!("without -f, `{}` was added inside pre-existing directory `{}` by `c2patool {}` ({exit})", p.display(), a.display(), inv.args(ext).join(" ")),
                    ));
                    break;
                }
                anc = a.parent();
            }
        }
    }
    let mut verified = None;
    if inv.mode == Mode::Sign && exit == "exit0" {
        let r = verify_signed(&w.join(&out));
        if let Err(e) = &r {
            violations.push((
                format!("signed-not-valid {ctx}"),
                format!("`c2patool {}` exited 0 but its output does not validate: {e}", inv.args(ext).join(" ")),
            ));
        }
        verified = Some(r);
    }
    StepObs {
        exit,
        changes: fsnap::diff(&before, &after),
        violations,
        nontrivial,
        verified,
        stderr_head: head(&ex.stderr),
        stdout_len: ex.stdout.len(),
    }
}

fn head(s: &str) -> String {
    let t: String = s.chars().take(300).collect();
    t.replace('\n', " | ")
}

/// Run a whole case in a fresh temp dir; returns per-step observations.
fn run_case(tool: &Tool, seeds: &Seeds, case: &Case) -> Vec<StepObs> {
    let top = tempfile::Builder::new()
        .prefix("verif-c32-")
        .tempdir_in("/tmp")
        .unwrap_or_else(|e| kit::ev::machinery(format!("tempdir: {e}")));
    setup(top.path(), seeds, case);
    let ext = seeds.by_fmt[case.fmt].0;
    let mut obs = vec![];
    for inv in &case.invs {
        obs.push(step(tool, top.path(), case.fmt, ext, inv));
    }
    obs
}

fn summary(obs: &[StepObs]) -> String {
    obs.iter()
        .map(|o| {
            let mut c: Vec<String> = o.changes.clone();
            c.sort();
            format!("{}[{}]{}", o.exit, c.join(","), match &o.verified { Some(Ok(s)) => format!(" {s}"), Some(Err(_)) => " NOT-VALID".into(), None => String::new() })
        })
        .collect::<Vec<_>>()
        .join(" ; ")
}

pub fn run(run: &Run, replay: Option<&Value>) {
    run.rule("every c2patool command line of the product {sign | report | report --detailed | --ingredient to folder} x output {absent, existing file, existing dir, same as input} x -f x --sidecar x pre-existing .c2pa x --remote (sign), x input {signed, unsigned} (folder modes), for each format; plus every pair (first invocation with its pre-state) x (second command line: a 20-line core subset for one format in the quick tier, all 68 lines for all formats in the thorough tier). \
              non-trivial = invocations that start while a path they would write to (output, output folder, sidecar) already exists");
    run.assume("the binary is built from the repo's working tree by tools/build_c2patool.sh with the default features; it runs with a private HOME/XDG_CONFIG_HOME/TMPDIR, so no user settings are read");
    run.assume("'reports a file as signed' is taken to mean: a command line with a manifest definition (-m) exits with status 0");
    run.assume("with -f nothing is demanded of the paths the invocation writes to; unrelated paths are not judged under -f");
    run.assume("the remote URL points at a closed local port (127.0.0.1:9), so no network is needed; signing credentials are the repo's cli/sample es256 test keys");
    let t_build = Instant::now();
    let tool = build_tool();
    let build_s = t_build.elapsed().as_secs_f64();
    run.extra("c2patool_build_s", json!((build_s * 10.0).round() / 10.0));
    println!("C32: c2patool built from the working tree in {build_s:.1}s (included in wall_s)");
    let seeds = seeds();

    if let Some(c) = replay {
        let case = Case::from_json(c);
        run.eval();
        let ext = seeds.by_fmt[case.fmt].0;
        let obs = run_case(&tool, &seeds, &case);
        for (i, (inv, o)) in case.invs.iter().zip(obs.iter()).enumerate() {
            println!("step {}: c2patool {}", i + 1, inv.args(ext).join(" "));
            println!("  {} stdout={}B stderr: {}", o.exit, o.stdout_len, o.stderr_head);
            println!("  fs changes: {:?}", o.changes);
            if let Some(v) = &o.verified {
                println!("  output read back: {v:?}");
            }
            for (k, w) in &o.violations {
                println!("  VIOLATES: {w}");
                run.violation(k.clone(), w.clone(), c.clone());
            }
        }
        return;
    }

    // own the nondeterminism: the same case twice must give the same observation
    {
        let (pre, inv) = first_invocations()[0];
        let c = Case { fmt: "png", pre, invs: vec![inv, inv] };
        let a = summary(&run_case(&tool, &seeds, &c));
        let b = summary(&run_case(&tool, &seeds, &c));
        if a != b {
            kit::ev::machinery(format!("C32: nondeterministic baseline:\n {a}\n {b}"));
        }
        // and a plain sign must work at all, otherwise nothing below means anything
        if !a.starts_with("exit0") {
            kit::ev::machinery(format!("C32: baseline sign does not succeed: {a}"));
        }
    }

    let firsts = first_invocations();
    let seconds = second_invocations(run.tier.is_thorough());
    let mut cases: Vec<Case> = vec![];
    for f in FORMATS {
        for (pre, inv) in &firsts {
            cases.push(Case { fmt: f, pre: *pre, invs: vec![*inv] });
        }
    }
    let n1 = cases.len();
    run.space(&format!("single invocations: {} per format x {} formats", firsts.len(), FORMATS.len()), n1 as u64, true);
    let pair_formats: &[&'static str] = run.tier.pick(&FORMATS[..1], &FORMATS[..]);
    // Quick tier: a pair is only explored when its first invocation, run alone, changes the file system
    // (otherwise the second step starts from the unchanged pre-state). Thorough explores every pair.
    let writes_alone: std::collections::BTreeSet<String> = if run.tier.is_thorough() {
        Default::default()
    } else {
        let set: Mutex<std::collections::BTreeSet<String>> = Mutex::new(Default::default());
        let probe: Vec<Case> = pair_formats
            .iter()
            .flat_map(|f| firsts.iter().map(move |(pre, inv)| Case { fmt: f, pre: *pre, invs: vec![*inv] }))
            .collect();
        par::for_each(&probe, |case| {
            let obs = run_case(&tool, &seeds, case);
            if obs.last().map(|o| !o.changes.is_empty()).unwrap_or(false) {
                set.lock().unwrap().insert(format!("{}", case.to_json()));
            }
        });
        set.into_inner().unwrap()
    };
    let mut skipped_firsts = 0u64;
    for f in pair_formats {
        for (pre, inv) in &firsts {
            if !run.tier.is_thorough() {
                let single = Case { fmt: f, pre: *pre, invs: vec![*inv] };
                if !writes_alone.contains(&format!("{}", single.to_json())) {
                    skipped_firsts += 1;
                    continue;
                }
            }
            for s in &seconds {
                cases.push(Case { fmt: f, pre: *pre, invs: vec![*inv, *s] });
            }
        }
    }
    run.space(
        &format!(
            "pairs: first invocations that change the file system when run alone ({} of {}; all in thorough) x {} second command lines x formats {:?}",
            firsts.len() as u64 * pair_formats.len() as u64 - skipped_firsts,
            firsts.len() * pair_formats.len(),
            seconds.len(),
            pair_formats
        ),
        (cases.len() - n1) as u64,
        true,
    );

    let samples: Mutex<BTreeMap<String, Value>> = Mutex::new(BTreeMap::new());
    par::for_each(&cases, |case| {
        let obs = run_case(&tool, &seeds, case);
        let ext = seeds.by_fmt[case.fmt].0;
        for (i, (inv, o)) in case.invs.iter().zip(obs.iter()).enumerate() {
            // in a pair the first step repeats a single-invocation case already judged; only count and judge the last step
            if i + 1 != case.invs.len() {
                continue;
            }
            run.eval();
            let wrote = !o.changes.is_empty();
            let class = format!(
                "{} {} {}{}",
                inv.mode.name(),
                o.exit,
                if wrote { "wrote" } else { "no-change" },
                match &o.verified { Some(Ok(s)) => format!(" {s}"), Some(Err(_)) => " not-valid".into(), None => String::new() }
            );
            run.outcome(class.clone());
            if o.nontrivial {
                run.nontrivial(format!("{}", case.to_json()));
            }
            for (k, w) in &o.violations {
                run.violation(k.clone(), w.clone(), case.to_json());
            }
            let mut g = samples.lock().unwrap();
            if !g.contains_key(&class) {
                g.insert(class, json!({"case": case.to_json(), "last_cmd": format!("c2patool {}", inv.args(ext).join(" ")), "exit": o.exit, "fs_changes": o.changes, "stderr": o.stderr_head}));
            }
        }
    });
    for (_, v) in samples.lock().unwrap().iter() {
        run.sample(v.clone());
    }
    run.extra("binary", json!(tool.bin.display().to_string()));
}

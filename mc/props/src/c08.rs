//! C08 — same-size manifest replacement only changes the reported manifest region.
//!
//! S-inp: every seed asset x embedding state {fresh, has manifest (other size), handler-rewritten} x every
//! store length of the quick set (C07's set) x a pair of equal-length stores A != B. Region := the `Cai`
//! entries of the handler's object locations for the asset that holds A.
//! Oracle (from the property text, nothing more): region inside the file; disjoint from every other reported
//! region; A's bytes lie inside it (the independent walker's payload ranges are inside it and the SDK reads A
//! back); |asset_A| = |asset_B|; every differing byte between asset_A and the asset obtained by replacing A
//! with B (and between asset_A and a fresh write of B) lies inside the region. Where the handler implements
//! in-place patching (`AssetPatch::patch_cai_store`, file based) the patched file must equal the rewrite.
//!
//! Mutants caught (tools/mutant_run.sh A <diff> C08 quick):
//!   C08-png-cai-length.diff  (PNG Cai length without the 4 CRC bytes)  -> VIOLATION "diff-outside-region replace fmt=Png", "diff-outside-region fresh-B fmt=Png"
//!
//! Finding on the unchanged tree: "patch-error fmt=Gif IoError": GifIO::patch_cai_store opens the file read-only and then writes (EBADF), so
//! in-place patching of GIF never works.

use kit::embed::{self, kind_of_err, load, locations, remove, save};
use kit::walk;
use kit::{assets::Asset, par, Run};
use serde_json::{json, Value};

const STATES: [&str; 3] = ["fresh", "has-manifest", "rewritten"];

fn base_state(a: &Asset, st: &str) -> Vec<u8> {
    match st {
        "fresh" => a.data.clone(),
        "has-manifest" => save(a.mime, &a.data, &embed::store(333, 9)).unwrap_or_else(|e| kit::ev::machinery(format!("C08: seed {} rejects a store: {e}", a.name))),
        "rewritten" => remove(a.mime, &a.data).unwrap_or_else(|e| kit::ev::machinery(format!("C08: seed {} cannot be rewritten: {e}", a.name))),
        _ => kit::ev::machinery("C08: unknown state"),
    }
}

/// Formats whose handler reports no data-hash regions at all (BMFF uses its own exclusion scheme, the sidecar
/// has nothing to hash); for them the region is the independent walker's manifest container.
fn reports_no_region(a: &Asset) -> bool {
    matches!(embed::kind(a), walk::Kind::Bmff | walk::Kind::C2pa)
}

fn case(run: &Run, a: &Asset, st: &str, base: &[u8], n: usize) {
    run.eval();
    let cj = json!({"asset":a.name,"state":st,"n":n});
    let v = |class: &str, what: String| {
        run.outcome(class.to_string());
        embed::report(run, format!("{class} fmt={:?} asset={} state={st}", embed::kind(a), a.name), format!("n={n}: {what}"), cj.clone());
    };
    let (sa, sb) = (embed::store(n, 1), embed::store(n, 2));
    let (fa, fb) = match (save(a.mime, base, &sa), save(a.mime, base, &sb)) {
        (Ok(x), Ok(y)) => (x, y),
        (x, y) => {
            let e = x.err().or(y.err()).unwrap_or_default();
            return v(&format!("write-error {}", kind_of_err(&e)), e);
        }
    };
    // replace A by B inside asset_A
    let rb = match save(a.mime, &fa, &sb) {
        Ok(x) => x,
        Err(e) => return v(&format!("replace-error {}", kind_of_err(&e)), e),
    };
    // region
    let k = embed::kind(a);
    let locs = match locations(a.mime, &fa) {
        Ok(l) => l,
        Err(e) => return v(&format!("locations-error {}", kind_of_err(&e)), e),
    };
    let ms = match walk::manifests(k, &fa) {
        Ok(m) if m.len() == 1 => m,
        Ok(m) => return v("walker-count", format!("independent walker finds {} manifest containers in asset_A", m.len())),
        Err(e) => return v("walker-error", e),
    };
    let mut region: Vec<(usize, usize)> = locs.iter().filter(|l| l.2 == "Cai").map(|l| (l.0, l.0 + l.1)).collect();
    let others: Vec<(usize, usize, &str)> = locs.iter().filter(|l| l.2 != "Cai").map(|l| (l.0, l.0 + l.1, l.2.as_str())).collect();
    if region.is_empty() {
        if reports_no_region(a) {
            region = ms[0].ranges.iter().map(|r| (r.start, r.end)).collect();
            run.outcome("region-from-walker");
        } else {
            return v("no-cai-region", "handler reports no Cai region for an asset that holds a manifest".into());
        }
    }
    let inside = |p: usize| region.iter().any(|(s, e)| *s <= p && p < *e);
    // within the file
    for (s, e) in &region {
        if *e > fa.len() || s > e {
            v("region-outside-file", format!("Cai region {s}..{e} but the file has {} bytes", fa.len()));
        }
    }
    // disjoint from the other reported regions
    for (s, e, t) in &others {
        if s < e && region.iter().any(|(rs, re)| rs < e && s < re) {
            v(&format!("region-overlaps {t}"), format!("Cai region {:?} overlaps reported {t} region {s}..{e}", region));
        }
    }
    // contains the store
    match load(a.mime, &fa) {
        Ok(b) if b == sa => {}
        other => v("readback", format!("asset_A does not read back A: {:?}", other.map(|b| b.len()))),
    }
    for r in &ms[0].payload_ranges {
        if r.start < r.end && !(inside(r.start) && inside(r.end - 1)) {
            v("store-outside-region", format!("store bytes at {}..{} are not inside the reported Cai region {:?}", r.start, r.end, region));
            break;
        }
    }
    // same size, diffs confined to the region
    for (name, other) in [("replace", &rb), ("fresh-B", &fb)] {
        if other.len() != fa.len() {
            v(&format!("size-changes {name}"), format!("asset_A has {} bytes, {name} has {}", fa.len(), other.len()));
            continue;
        }
        if let Some(p) = (0..fa.len()).find(|&p| fa[p] != other[p] && !inside(p)) {
            let cnt = (0..fa.len()).filter(|&p| fa[p] != other[p] && !inside(p)).count();
            v(&format!("diff-outside-region {name}"), format!("{cnt} byte(s) outside the Cai region {:?} differ, first at offset {p} ({:#04x} -> {:#04x})", region, fa[p], other[p]));
        }
    }
    if rb != fb {
        // not demanded by the property; recorded as an outcome only
        run.outcome("replace-differs-from-fresh-write");
    }
    run.outcome("checked");
    run.nontrivial(format!("{}/{st}/{n}", a.name));
}

/// In-place patching through the file based AssetPatch interface (hook `patch_cai_store`).
fn patch_case(run: &Run, a: &Asset, n: usize, dir: &std::path::Path) {
    let cj = json!({"asset":a.name,"state":"patch","n":n});
    let (sa, sb) = (embed::store(n, 1), embed::store(n, 2));
    let Ok(fa) = save(a.mime, &a.data, &sa) else { return };
    let Ok(rb) = save(a.mime, &fa, &sb) else { return };
    let p = dir.join(format!("{}-{n}.{}", a.name, a.ext));
    if std::fs::write(&p, &fa).is_err() {
        kit::ev::machinery("C08: cannot write temp file");
    }
    let r = par::guard(|| c2pa::verif_hooks::patch_cai_store(a.mime, &p, &sb));
    match r {
        Ok(None) => run.outcome("patch-unsupported"),
        Ok(Some(Ok(()))) => {
            run.eval();
            let got = std::fs::read(&p).unwrap_or_default();
            if got != rb {
                let first = got.iter().zip(rb.iter()).position(|(x, y)| x != y);
                embed::report(run, format!("patch-differs-from-rewrite fmt={:?} asset={}", embed::kind(a), a.name), format!("n={n}: patched file ({} bytes) != rewritten asset ({} bytes), first diff {first:?}", got.len(), rb.len()), cj);
            } else {
                run.outcome("patch-equals-rewrite");
                run.nontrivial(format!("patch/{}/{n}", a.name));
            }
        }
        Ok(Some(Err(e))) => {
            run.eval();
            embed::report(run, format!("patch-error fmt={:?} {} asset={}", embed::kind(a), kit::sdk::err_kind(&e), a.name), format!("n={n}: {e:?}"), cj);
        }
        Err(pn) => {
            run.eval();
            embed::report(run, format!("patch-panic fmt={:?} asset={}", embed::kind(a), a.name), format!("n={n}: {pn}"), cj);
        }
    }
    let _ = std::fs::remove_file(&p);
}

pub fn run(run: &Run, replay: Option<&Value>) {
    run.rule("per seed asset x state {fresh, has-manifest, rewritten} x store length n: equal-length stores A,B; Cai region of object_locations(asset_A) must lie in the file, be disjoint from the other reported regions, contain A's bytes, and contain every byte that differs between asset_A and (i) asset_A with A replaced by B, (ii) a fresh write of B; sizes equal. non-trivial = cases where all three writes succeeded and a region was available to judge. Plus AssetPatch::patch_cai_store == rewrite on a length subset.");
    run.assume("for BMFF and the .c2pa sidecar the handler reports no data-hash regions at all; there the region is the manifest container located by the independent walker (C2PA uuid box / whole file)");
    run.assume("'contains the embedded store' is judged by the independent walker's payload ranges lying inside the region plus the SDK reading A back");
    let seeds = embed::seeds();
    if let Some(c) = replay {
        let a = embed::seed(c["asset"].as_str().unwrap_or(""));
        let st = c["state"].as_str().unwrap_or("fresh");
        let n = c["n"].as_u64().unwrap_or(100) as usize;
        if st == "patch" {
            let d = tempfile::tempdir().unwrap_or_else(|e| kit::ev::machinery(format!("tempdir: {e}")));
            patch_case(run, &a, n, d.path());
        } else {
            case(run, &a, st, &base_state(&a, st), n);
        }
        println!("replay: {} violation(s)", run.violation_count());
        return;
    }
    // determinism
    for a in &seeds {
        let s = embed::store(200, 1);
        if save(a.mime, &a.data, &s) != save(a.mime, &a.data, &s) {
            kit::ev::machinery(format!("C08: nondeterministic write for {}", a.name));
        }
    }
    let lens: Vec<usize> = if run.tier.is_thorough() {
        let mut v: Vec<usize> = (embed::MIN_STORE..=20_000).collect();
        v.extend(embed::quick_lengths().into_iter().filter(|n| *n > 20_000));
        v
    } else {
        // every n up to 600 (all 1/2-byte size-field and base64/pad phases, GIF 255-byte sub-block and ID3 syncsafe 128 boundaries), then the boundary windows
        let mut v: Vec<usize> = (embed::MIN_STORE..=600).collect();
        v.extend(embed::quick_lengths().into_iter().filter(|n| *n > 4096 && *n < 70_000));
        v
    };
    let bases: Vec<Vec<Vec<u8>>> = seeds.iter().map(|a| STATES.iter().map(|s| base_state(a, s)).collect()).collect();
    let total = seeds.len() * STATES.len() * lens.len();
    run.space(&format!("{} seeds x {} states x {} lengths ({})", seeds.len(), STATES.len(), lens.len(),
        if run.tier.is_thorough() { "every n in [46,20000] + boundary windows" } else { "every n in [46,600] + windows +-8 around 64000 and 65536" }), total as u64, true);
    par::for_each_index(total as u64, |i| {
        let i = i as usize;
        let ai = i % seeds.len();
        let si = (i / seeds.len()) % STATES.len();
        let n = lens[i / (seeds.len() * STATES.len())];
        case(run, &seeds[ai], STATES[si], &bases[ai][si], n);
    });
    // patching
    let d = tempfile::tempdir().unwrap_or_else(|e| kit::ev::machinery(format!("tempdir: {e}")));
    let plens: Vec<usize> = lens.iter().cloned().filter(|n| *n <= 200 || *n > 4096).collect();
    let ptotal = seeds.len() * plens.len();
    run.space("AssetPatch::patch_cai_store vs rewrite: seeds x lengths (n<=200 + boundary windows)", ptotal as u64, true);
    par::for_each_index(ptotal as u64, |i| {
        let i = i as usize;
        patch_case(run, &seeds[i % seeds.len()], plens[i / seeds.len()], d.path());
    });
    run.sample(json!({"asset":"jpeg","state":"fresh","n":64001,"note":"two APP11 segments, one Cai region"}));
    run.sample(json!({"asset":"wav","state":"has-manifest","n":101,"note":"odd RIFF chunk, pad byte"}));
    run.sample(json!({"asset":"tiff-II-2pages","state":"fresh","n":300}));
    run.sample(json!({"asset":"mp4","state":"fresh","n":500,"note":"region from walker (handler reports none)"}));
}

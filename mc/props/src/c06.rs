//! C06 — certificate profile violations make the manifest invalid; conforming certificates are never flagged.
//! S-inp: one generated end-entity certificate per profile rule (and, thorough, every compatible pair of rules)
//! plus conforming controls for every key type, signed into a PNG through the kit's direct-COSE signer
//! (hook `cose_sign_unchecked`, so the SDK's refusal to sign with such a certificate does not hide the reader's
//! behaviour), without a time-stamp and with kit time-stamps that place the signing inside / outside the
//! certificate's validity; every asset is read under a trust-verifying and a non-trust-verifying context.
//! Second seam: the public c2pa::crypto::cose::check_end_entity_certificate_profile on the same certificates.
//!
//! Mutants caught (tools/mutant_run.sh E <patch> C06 quick):
//!   mutants/C06-no-uid-check.diff       (issuer/subject unique-ID branch removed)
//!   mutants/C06-any-eku-allowed.diff    (anyExtendedKeyUsage no longer rejected)
//!   /tmp/seed-C06/OUT/patch.diff        (independently seeded: RSA size test counts modulus bytes; caught by key-rsa2047)

use std::sync::{Arc, Mutex};

use c2pa::crypto::cose::{check_end_entity_certificate_profile, CertificateTrustPolicy};
use c2pa::status_tracker::StatusTracker;
use kit::{
    par,
    pki::{self, CertSpec, Digest, Hierarchy, KeyKind, KitSigner, Ku, Obs, TokenOpts, Tsa, DAY},
    Run,
};
use serde_json::{json, Value};

/// (name, group) — rules of one group cannot be combined with each other
const RULES: &[(&str, &str)] = &[
    ("version-v1", "version"),
    ("version-v2", "version"),
    ("ca-true", "ca"),
    ("self-signed", "issuer"),
    ("sig-rsa-md5", "sig"),
    ("sig-rsa-sha1", "sig"),
    ("sig-ecdsa-sha1", "sig"),
    ("key-p192", "key"),
    ("key-rsa1024", "key"),
    ("key-rsa2047", "key"),
    ("key-rsa2040", "key"),
    ("issuer-uid", "iuid"),
    ("subject-uid", "suid"),
    ("ku-absent", "ku"),
    ("ku-keyEncipherment-only", "ku"),
    ("ku-nonRepudiation-only", "ku"),
    ("ku-keyCertSign-non-ca", "ku"),
    ("eku-absent", "eku"),
    ("eku-any", "eku"),
    ("eku-any-plus-email", "eku"),
    ("eku-serverAuth", "eku"),
    ("eku-custom-unconfigured", "eku"),
    ("critical-unknown-ext", "ext"),
    ("not-yet-valid", "validity"),
    ("expired", "validity"),
];

const CONTROLS: &[&str] = &[
    "conform",
    "conform-docsign",
    "conform-c2pa-eku",
    "conform-custom-eku-configured",
    "conform-noncritical-unknown-ext",
    "conform-ku-digsig+nonrep",
    "conform-depth2",
    "conform-depth3",
    "conform-short-window",
];

#[derive(Clone, Copy, PartialEq, Eq, Debug)]
enum Ts {
    None,
    /// kit token, genTime inside the certificate's validity
    In,
    /// kit token, genTime one day before notBefore
    BeforeNb,
    /// kit token, genTime after notAfter (one hour ago; only for expired certificates)
    AfterNa,
    /// token minted by `openssl ts -reply` (genTime = now)
    Cli,
    /// kit tokens exactly at / one second outside the validity boundaries
    NbMinus1,
    AtNb,
    AtNa,
    NaPlus1,
}
impl Ts {
    fn name(self) -> &'static str {
        match self {
            Ts::None => "none",
            Ts::In => "in",
            Ts::BeforeNb => "before-notBefore",
            Ts::AfterNa => "after-notAfter",
            Ts::Cli => "cli-now",
            Ts::NbMinus1 => "notBefore-1s",
            Ts::AtNb => "at-notBefore",
            Ts::AtNa => "at-notAfter",
            Ts::NaPlus1 => "notAfter+1s",
        }
    }
    fn from(s: &str) -> Ts {
        [Ts::None, Ts::In, Ts::BeforeNb, Ts::AfterNa, Ts::Cli, Ts::NbMinus1, Ts::AtNb, Ts::AtNa, Ts::NaPlus1].into_iter().find(|t| t.name() == s).unwrap_or(Ts::None)
    }
}

struct Plan {
    ee: CertSpec,
    depth: usize,
    ca_kind: KeyKind,
    ee_kind: KeyKind,
    trust_config: Option<String>,
}

fn apply(rule: &str, p: &mut Plan, now: i64) {
    match rule {
        "version-v1" => p.ee.version = 0,
        "version-v2" => p.ee.version = 1,
        "ca-true" => p.ee.basic = Some((true, None)),
        "self-signed" => p.depth = 0,
        "sig-rsa-md5" => {
            p.ca_kind = KeyKind::Rsa2048;
            p.ee.digest = Some(Digest::Md5);
        }
        "sig-rsa-sha1" => {
            p.ca_kind = KeyKind::Rsa2048;
            p.ee.digest = Some(Digest::Sha1);
        }
        "sig-ecdsa-sha1" => {
            p.ca_kind = KeyKind::P256;
            p.ee.digest = Some(Digest::Sha1);
        }
        "key-p192" => p.ee_kind = KeyKind::P192,
        "key-rsa1024" => p.ee_kind = KeyKind::Rsa1024,
        "key-rsa2047" => p.ee_kind = KeyKind::Rsa2047,
        "key-rsa2040" => p.ee_kind = KeyKind::Rsa2040,
        "issuer-uid" => p.ee.issuer_uid = Some(vec![0x11, 0x22, 0x33]),
        "subject-uid" => p.ee.subject_uid = Some(vec![0x44, 0x55]),
        "ku-absent" => p.ee.key_usage = None,
        "ku-keyEncipherment-only" => p.ee.key_usage = Some(vec![Ku::KeyEncipherment]),
        "ku-nonRepudiation-only" => p.ee.key_usage = Some(vec![Ku::NonRepudiation]),
        "ku-keyCertSign-non-ca" => p.ee.key_usage = Some(vec![Ku::DigitalSignature, Ku::KeyCertSign]),
        "eku-absent" => p.ee.eku = None,
        "eku-any" => p.ee.eku = Some(vec![pki::EKU_ANY.into()]),
        "eku-any-plus-email" => p.ee.eku = Some(vec![pki::EKU_EMAIL.into(), pki::EKU_ANY.into()]),
        "eku-serverAuth" => p.ee.eku = Some(vec![pki::EKU_SERVER.into()]),
        "eku-custom-unconfigured" => p.ee.eku = Some(vec![pki::EKU_CUSTOM.into()]),
        "critical-unknown-ext" => p.ee.extra_ext.push(("1.3.6.1.4.1.55555.1.1".into(), true, pki::der::null())),
        "not-yet-valid" => {
            p.ee.not_before = now + DAY;
            p.ee.not_after = now + 30 * DAY;
        }
        "expired" => {
            p.ee.not_before = now - 30 * DAY;
            p.ee.not_after = now - DAY;
        }
        // ---- controls
        "conform" => {}
        "conform-docsign" => p.ee.eku = Some(vec![pki::EKU_DOCSIGN.into()]),
        "conform-c2pa-eku" => p.ee.eku = Some(vec![pki::EKU_C2PA.into()]),
        "conform-custom-eku-configured" => {
            p.ee.eku = Some(vec![pki::EKU_CUSTOM.into()]);
            p.trust_config = Some(pki::EKU_CUSTOM.into());
        }
        "conform-noncritical-unknown-ext" => p.ee.extra_ext.push(("1.3.6.1.4.1.55555.1.2".into(), false, pki::der::null())),
        "conform-ku-digsig+nonrep" => p.ee.key_usage = Some(vec![Ku::DigitalSignature, Ku::NonRepudiation]),
        "conform-depth2" => p.depth = 2,
        "conform-depth3" => p.depth = 3,
        "conform-short-window" => {
            p.ee.not_before = now - 20 * DAY;
            p.ee.not_after = now + 20 * DAY;
        }
        other => kit::ev::machinery(format!("C06: unknown rule {other}")),
    }
}

#[derive(Clone)]
struct Case {
    rules: Vec<String>,
    kind: KeyKind,
    ts: Ts,
}

impl Case {
    fn label(&self) -> String {
        self.rules.join("+")
    }
    /// Does the certificate violate the profile *at the signing time this case establishes*? By construction.
    fn violates(&self) -> bool {
        let structural = self.rules.iter().any(|r| !r.starts_with("conform") && r != "expired" && r != "not-yet-valid");
        let has = |n: &str| self.rules.iter().any(|r| r == n);
        let validity = if has("expired") {
            // window [now-30d, now-1d]
            match self.ts {
                Ts::In | Ts::AtNb | Ts::AtNa => false, // the validity period includes both end points (RFC 5280 4.1.2.5)
                _ => true, // none / cli (= now), after-notAfter, before-notBefore, one second outside
            }
        } else if has("not-yet-valid") {
            true // none / cli (= now) / before-notBefore; "in" is never generated for it
        } else {
            // valid now; only a token before notBefore puts the signing outside
            self.ts == Ts::BeforeNb
        };
        structural || validity
    }
    fn json(&self, seam: &str, ctx: &str) -> Value {
        json!({"seam": seam, "rules": self.rules, "kind": self.kind.name(), "ts": self.ts.name(), "ctx": ctx})
    }
}

struct Built {
    h: Hierarchy,
    trust_config: Option<String>,
}

fn build(c: &Case, now: i64) -> Built {
    let tag = format!("c06-{}-{}", c.label(), c.kind.name());
    let mut p = Plan { ee: CertSpec::ee(&format!("{tag} signer")), depth: 1, ca_kind: c.kind, ee_kind: c.kind, trust_config: None };
    for r in &c.rules {
        apply(r, &mut p, now);
    }
    // RSA keys come from the disk cache; the slot only depends on the role so that few keys are ever generated
    let slot = format!("c06-{}", if p.depth == 0 { "self" } else { "h" });
    let h = Hierarchy::build_with(&slot, p.depth, p.ca_kind, p.ee_kind, p.ee);
    Built { h, trust_config: p.trust_config }
}

fn gen_time_for(c: &Case, h: &Hierarchy, now: i64) -> i64 {
    let (nb, na) = (h.ee.spec.not_before, h.ee.spec.not_after);
    match c.ts {
        Ts::In => {
            if na < now {
                na - 9 * DAY
            } else {
                now - 3600
            }
        }
        Ts::BeforeNb => nb - DAY,
        Ts::AfterNa => now - 3600,
        Ts::NbMinus1 => nb - 1,
        Ts::AtNb => nb,
        Ts::AtNa => na,
        Ts::NaPlus1 => na + 1,
        _ => now,
    }
}

type Minted = Arc<Mutex<Vec<(Vec<u8>, Vec<u8>)>>>; // (reply, imprint)

fn tsa_fn(tsa: &Arc<Tsa>, ts: Ts, gen_time: i64, minted: &Minted) -> pki::TsaFn {
    let tsa = tsa.clone();
    let minted = minted.clone();
    Arc::new(move |msg: &[u8]| {
        let imprint = pki::sha256(msg);
        let reply = match ts {
            Ts::Cli => match tsa.cli_reply(&Tsa::query(&imprint)) {
                Ok(r) => r,
                Err(e) => return Some(Err(c2pa::Error::BadParam(format!("kit tsa cli: {e}")))),
            },
            _ => tsa.build_reply(&imprint, &TokenOpts { gen_time, signing_time_attr: None, serial: pki::next_serial(), include_certs: true }),
        };
        minted.lock().unwrap().push((reply.clone(), imprint));
        Some(Ok(reply))
    })
}

struct Executed {
    built: Built,
    signed: Result<Vec<u8>, String>,
    gen_time: i64,
}

fn execute(c: &Case, tsa: &Arc<Tsa>, now: i64) -> Executed {
    let built = build(c, now);
    let gen_time = gen_time_for(c, &built.h, now);
    let minted: Minted = Arc::new(Mutex::new(vec![]));
    let mut signer = KitSigner::for_hierarchy(&built.h).direct();
    if c.ts != Ts::None {
        signer = signer.with_tsa(tsa_fn(tsa, c.ts, gen_time, &minted));
    }
    let signed = pki::sign_asset(&signer, "image/png", &kit::assets::png(), pki::DEF_V2);
    if c.ts != Ts::None && signed.is_ok() {
        // precondition: the time-stamp the case relies on is a good one by an independent judge
        let g = minted.lock().unwrap();
        let Some((reply, imprint)) = g.last() else { kit::ev::machinery("C06: signer was never asked for a time-stamp") };
        let token = pki::token_of_reply(reply).unwrap_or_else(|| kit::ev::machinery("C06: kit reply has no token"));
        if !pki::ts_verify_cli(&token, imprint, &[&tsa.root], Some(gen_time)) {
            kit::ev::machinery(format!("C06: openssl ts -verify rejects the kit token of case {} ts={}", c.label(), c.ts.name()));
        }
    }
    Executed { built, signed, gen_time }
}

fn contexts(b: &Built, tsa: &Tsa) -> Vec<(&'static str, c2pa::Context)> {
    let mut anchors = tsa.root.pem();
    match &b.h.root {
        Some(r) => anchors.push_str(&r.pem()),
        None => anchors.push_str(&b.h.ee.pem()), // self-signed: the certificate itself is the only possible anchor
    }
    let mut trust = json!({"trust_anchors": anchors});
    if let Some(tc) = &b.trust_config {
        trust["trust_config"] = json!(tc);
    }
    vec![
        ("trust", pki::read_ctx(trust.clone(), json!({"verify_trust": true}))),
        ("notrust", pki::read_ctx(trust, json!({"verify_trust": false}))),
    ]
}

fn judge(run: &Run, c: &Case, ctx_name: &str, o: &Result<Obs, String>) {
    run.eval();
    let id = format!("{}/{}/{}/{}", c.label(), c.kind.name(), c.ts.name(), ctx_name);
    let case = c.json("reader", ctx_name);
    let o = match o {
        Err(p) => {
            run.outcome("panic");
            run.violation(format!("panic reading rule={} ts={}", c.label(), c.ts.name()), format!("{id}: {p}"), case);
            return;
        }
        Ok(o) => o,
    };
    run.nontrivial(id.clone());
    run.outcome(o.class());
    let cred_fail = o.has("failure", "signingCredential.");
    if c.violates() {
        if o.ok_state() {
            run.violation(
                format!("accepted rule={} ts={} ctx={} state={} kind={}", c.label(), c.ts.name(), ctx_name, o.state, c.kind.name()),
                format!("certificate violating [{}] (time-stamp: {}) reads {} with codes {:?}", c.label(), c.ts.name(), o.state, o.pick(&["signingCredential", "timeStamp"])),
                case,
            );
        } else if !cred_fail && !o.state.starts_with("Err") {
            run.violation(
                format!("no-credential-code rule={} ts={} ctx={} kind={}", c.label(), c.ts.name(), ctx_name, c.kind.name()),
                format!("certificate violating [{}] reads {} but no signingCredential.* failure code is reported: {:?}", c.label(), o.state, o.codes),
                case,
            );
        }
    } else {
        let flagged = o.has("failure", "signingCredential.invalid") || o.has("failure", "signingCredential.expired");
        if flagged {
            run.violation(
                format!("flagged control={} ts={} ctx={} kind={}", c.label(), c.ts.name(), ctx_name, c.kind.name()),
                format!("conforming certificate [{}] (time-stamp: {}) is flagged: state {} codes {:?}", c.label(), c.ts.name(), o.state, o.pick(&["signingCredential", "timeStamp"])),
                case,
            );
        } else if !o.ok_state() && !matches!(c.ts, Ts::AtNb | Ts::AtNa) {
            // (at the exact end points OpenSSL's chain check may already call the certificate out of date; only the profile codes are judged there)
            // not a verdict of this property: the seed itself is broken
            kit::ev::machinery(format!("C06: conforming control {id} does not read back Valid/Trusted: {} {:?}", o.state, o.codes));
        }
    }
}

fn run_case(run: &Run, c: &Case, tsa: &Arc<Tsa>, now: i64) {
    let ex = execute(c, tsa, now);
    match &ex.signed {
        Err(e) => {
            run.eval();
            run.outcome(format!("sign-refused:{}", e.split('(').next().unwrap_or("")));
            if !c.violates() {
                kit::ev::machinery(format!("C06: cannot sign with conforming control {}: {e}", c.label()));
            }
        }
        Ok(bytes) => {
            for (name, ctx) in contexts(&ex.built, tsa) {
                let o = pki::observe(ctx, "image/png", bytes);
                judge(run, c, name, &o);
                if c.ts != Ts::None {
                    if let Ok(o) = &o {
                        run.outcome(format!("ts-used={}", o.has("success", "timeStamp.validated")));
                    }
                }
            }
        }
    }
    let _ = ex.gen_time;
}

// ---- second seam: the public profile checker -----------------------------------------------------------
fn direct_case(run: &Run, c: &Case, tsa: &Arc<Tsa>, now: i64) {
    let built = build(c, now);
    let mut ctp = CertificateTrustPolicy::default();
    if let Some(tc) = &built.trust_config {
        ctp.add_valid_ekus(tc.as_bytes());
    }
    let mut log = StatusTracker::default();
    let gen_time = gen_time_for(c, &built.h, now);
    let der = built.h.ee.der.clone();
    let r = par::guard(|| {
        if c.ts == Ts::None {
            check_end_entity_certificate_profile(&der, &ctp, &mut log, None).map_err(|e| format!("{e:?}"))
        } else {
            // a TstInfo can only be obtained from the public time-stamp verifier
            let data = b"c06 direct seam";
            let reply = tsa.build_reply(&pki::sha256(data), &TokenOpts { gen_time, signing_time_attr: None, serial: pki::next_serial(), include_certs: true });
            let mut tlog = StatusTracker::default();
            match c2pa::crypto::time_stamp::verify_time_stamp(&reply, data, &ctp, &mut tlog, false) {
                Ok(tst) => check_end_entity_certificate_profile(&der, &ctp, &mut log, Some(&tst)).map_err(|e| format!("{e:?}")),
                Err(e) => kit::ev::machinery(format!("C06: public verify_time_stamp rejects a kit token: {e:?}")),
            }
        }
    });
    run.eval();
    let id = format!("direct/{}/{}/{}", c.label(), c.kind.name(), c.ts.name());
    run.nontrivial(id.clone());
    let case = c.json("direct", "-");
    let statuses: Vec<String> = log.logged_items().iter().filter_map(|i| i.validation_status.as_ref().map(|s| s.to_string())).collect();
    match r {
        Err(p) => run.violation(format!("direct panic rule={}", c.label()), format!("{id}: {p}"), case),
        Ok(Ok(())) => {
            run.outcome("direct-ok");
            if c.violates() {
                run.violation(
                    format!("direct accepted rule={} ts={} kind={}", c.label(), c.ts.name(), c.kind.name()),
                    format!("check_end_entity_certificate_profile returns Ok for a certificate violating [{}] (time-stamp {})", c.label(), c.ts.name()),
                    case,
                );
            }
        }
        Ok(Err(e)) => {
            run.outcome(format!("direct-err:{e}"));
            if !c.violates() {
                run.violation(
                    format!("direct flagged control={} ts={} kind={}", c.label(), c.ts.name(), c.kind.name()),
                    format!("check_end_entity_certificate_profile rejects conforming [{}]: {e}, logged {statuses:?}", c.label()),
                    case,
                );
            } else if !statuses.iter().any(|s| s.starts_with("signingCredential.")) {
                run.violation(
                    format!("direct no-credential-code rule={} ts={} kind={}", c.label(), c.ts.name(), c.kind.name()),
                    format!("rejected with {e} but no signingCredential.* status was logged ({statuses:?})"),
                    case,
                );
            }
        }
    }
}

fn cases(run: &Run) -> Vec<Case> {
    let mut v = vec![];
    let kinds: Vec<KeyKind> = if run.tier.is_thorough() { KeyKind::STRONG.to_vec() } else { vec![KeyKind::P256] };
    let mk = |rules: &[&str], kind, ts| Case { rules: rules.iter().map(|s| s.to_string()).collect(), kind, ts };
    // one rule at a time
    for (rule, group) in RULES {
        for &kind in &kinds {
            let tss: &[Ts] = match *rule {
                "expired" => &[Ts::None, Ts::In, Ts::BeforeNb, Ts::AfterNa, Ts::Cli, Ts::NbMinus1, Ts::AtNb, Ts::AtNa, Ts::NaPlus1],
                "not-yet-valid" => &[Ts::None, Ts::BeforeNb, Ts::Cli],
                _ => &[Ts::None, Ts::In],
            };
            let _ = group;
            for &ts in tss {
                if ts == Ts::Cli && !run.tier.is_thorough() && *rule != "expired" {
                    continue;
                }
                v.push(mk(&[rule], kind, ts));
            }
        }
    }
    // controls on every key type
    for ctl in CONTROLS {
        for &kind in &KeyKind::STRONG {
            if !run.tier.is_thorough() && *ctl != "conform" && kind != KeyKind::P256 {
                continue;
            }
            let mut tss = vec![Ts::None, Ts::In];
            if *ctl == "conform-short-window" {
                tss.push(Ts::BeforeNb);
            }
            if *ctl == "conform" {
                tss.push(Ts::Cli);
            }
            for ts in tss {
                v.push(mk(&[ctl], kind, ts));
            }
        }
    }
    // thorough: every pair of rules of different groups (no time-stamp)
    if run.tier.is_thorough() {
        for (i, (a, ga)) in RULES.iter().enumerate() {
            for (b, gb) in RULES.iter().skip(i + 1) {
                if ga == gb {
                    continue;
                }
                // the kit cannot give a self-signed certificate a different issuer key / digest pair
                let sig_or_key = |g: &str| g == "sig" || g == "key";
                if (*a == "self-signed" && sig_or_key(gb)) || (*b == "self-signed" && sig_or_key(ga)) {
                    continue;
                }
                if sig_or_key(ga) && sig_or_key(gb) {
                    continue;
                }
                v.push(mk(&[a, b], KeyKind::P256, Ts::None));
            }
        }
    }
    v
}

pub fn run(run: &Run, replay: Option<&Value>) {
    run.rule("one end-entity certificate per profile rule (thorough: x every strong key type, and every compatible pair of rules) and conforming controls on every key type, \
              each signed into a PNG by the kit's direct-COSE signer without a time-stamp and with kit time-stamps inside/outside the validity window, each read under a \
              trust-verifying and a non-verifying context; plus the same certificates through the public check_end_entity_certificate_profile. \
              non-trivial = every (rule set, key type, time-stamp variant, context) actually read back (sign refusals are counted as outcomes, not as non-trivial cases).");
    run.assume("ground truth is by construction: the kit generator sets exactly the named fields; all other fields conform to the C2PA certificate profile (v3, non-CA, digitalSignature, emailProtection EKU, AKI, SHA-2 signature, validity 2020-2040)");
    run.assume("signing time = genTime of a kit time-stamp that `openssl ts -verify` accepts (checked for every token; rejection is a machinery failure), else the wall clock");
    run.assume("hand-encoded tokens carry no CMS signingTime attribute (the SDK prefers that attribute over genTime); CLI-minted tokens carry signingTime = genTime = now");
    if !pki::cli_available() {
        kit::ev::machinery("C06: openssl CLI not available");
    }
    let now = pki::now();
    let tsa = Arc::new(Tsa::new("c06", KeyKind::P256, |_| {}));

    if let Some(c) = replay {
        let case = Case {
            rules: c["rules"].as_array().map(|a| a.iter().filter_map(|x| x.as_str().map(String::from)).collect()).unwrap_or_default(),
            kind: KeyKind::from_name(c["kind"].as_str().unwrap_or("p256")),
            ts: Ts::from(c["ts"].as_str().unwrap_or("none")),
        };
        println!("replay {:?} kind={} ts={} -> profile violated by construction: {}", case.rules, case.kind.name(), case.ts.name(), case.violates());
        if c["seam"] == "direct" {
            direct_case(run, &case, &tsa, now);
        } else {
            let ex = execute(&case, &tsa, now);
            println!("  certificate:\n{}", ex.built.h.ee.pem());
            match &ex.signed {
                Err(e) => println!("  signing refused: {e}"),
                Ok(bytes) => {
                    for (name, ctx) in contexts(&ex.built, &tsa) {
                        if c["ctx"].as_str().is_some_and(|x| x != name) {
                            continue;
                        }
                        let o = pki::observe(ctx, "image/png", bytes);
                        println!("  ctx={name}: {o:?}");
                        judge(run, &case, name, &o);
                    }
                }
            }
        }
        return;
    }

    // owning nondeterminism: the same control twice must be observed identically
    {
        let c = Case { rules: vec!["conform".into()], kind: KeyKind::P256, ts: Ts::None };
        let a = execute(&c, &tsa, now);
        let (Ok(x), Ok(y)) = (&a.signed, &execute(&c, &tsa, now).signed) else { kit::ev::machinery("C06: baseline control cannot be signed") };
        let ctx = || contexts(&a.built, &tsa).remove(0).1;
        let (o1, o2) = (pki::observe(ctx(), "image/png", x), pki::observe(ctx(), "image/png", x));
        if o1 != o2 || o1.as_ref().map(|o| o.state.clone()).ok() != Some("Trusted".into()) {
            kit::ev::machinery(format!("C06: baseline control not deterministic or not Trusted: {o1:?} vs {o2:?}"));
        }
        let _ = y;
        run.evals(2);
    }

    let all = cases(run);
    run.space("(rule set, key type, time-stamp variant) signed assets, each read under 2 contexts", all.len() as u64, true);
    run.space("(rule set, key type, time-stamp variant) through check_end_entity_certificate_profile", all.iter().filter(|c| c.ts != Ts::Cli).count() as u64, true);
    for c in all.iter().take(3) {
        run.sample(c.json("reader", "trust+notrust"));
    }
    if let Some(c) = all.iter().find(|c| c.rules[0] == "expired" && c.ts == Ts::In) {
        run.sample(json!({"case": c.json("reader", "trust+notrust"), "violates_by_construction": c.violates()}));
    }
    par::for_each(&all, |c| {
        run_case(run, c, &tsa, now);
        if c.ts != Ts::Cli {
            direct_case(run, c, &tsa, now);
        }
    });
}

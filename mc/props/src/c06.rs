//! C06 — not implemented yet (see DESIGN.md section 4).
use kit::Run;
use serde_json::Value;

pub fn run(_run: &Run, _replay: Option<&Value>) {
    kit::ev::machinery("C06: check not implemented");
}

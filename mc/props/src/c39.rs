//! C39 — ingredients carry their source manifests and validation faithfully.
//! S-inp: {signed, tampered (one media byte flipped), unsigned} tiny asset of every kit format x relationship
//! {parentOf, componentOf, inputTo} x {direct, via ingredient archive, chain of 2}.
//! Oracle (DESIGN.md C39): every manifest superbox of the ingredient's store appears byte-identical in the new store
//! (independent JUMBF walker, kit::defs::manifest_boxes); the validation state and failure codes recorded with the
//! ingredient equal those obtained by reading the ingredient on its own; unsigned => no manifest, no failure.
//!
//! Mutants caught (tools/mutant_run.sh H <diff> C39 quick):
//!   /verif/mutants/C39-validation-results-get-or-insert.diff (independently seeded, first MISSED; led to the ingredient
//!       definition factor) -> `state-differs ... def=emitted-other` / `failure-codes-differ ... def=emitted-other`
//!   /verif/mutants/C39-ingredient-drops-failure-codes.diff -> `state-differs ...` / `failure-codes-differ ...` for tampered ingredients

use c2pa::{Builder, BuilderIntent, DigitalSourceType};
use kit::{assets, defs::manifest_boxes, par, sdk, Run};
use serde_json::{json, Value};
use std::io::Cursor;

pub const RELS: [&str; 3] = ["parentOf", "componentOf", "inputTo"];
pub const STATES: [&str; 3] = ["signed", "tampered", "unsigned"];
pub const MODES: [&str; 3] = ["direct", "archive", "chain2"];

#[derive(Clone, Debug)]
pub struct Seed {
    pub name: String,
    pub mime: &'static str,
    pub unsigned: Vec<u8>,
    pub signed: Vec<u8>,
    pub store: Vec<u8>,
    pub tampered: Vec<u8>,
    pub tamper_pos: usize,
    /// the ingredient JSON the SDK itself emits (serialised Ingredient after add_ingredient_from_stream) for the signed / the tampered asset
    pub json_signed: Value,
    pub json_tampered: Value,
}

/// The SDK-emitted ingredient definition of an asset: what a tool gets when it serialises the Ingredient it just added.
fn emitted_json(mime: &str, data: &[u8]) -> Value {
    let mut b = new_builder("componentOf", "scratch");
    match b.add_ingredient_from_stream(r#"{"title":"scratch","relationship":"componentOf"}"#, mime, &mut Cursor::new(data)) {
        Ok(i) => serde_json::to_value(&*i).unwrap_or(Value::Null),
        Err(e) => kit::ev::machinery(format!("C39: cannot obtain the emitted ingredient JSON: {e:?}")),
    }
}

/// (state, failure (code,url) list sorted) of reading an asset on its own; None when it carries no manifest.
pub fn read_alone(mime: &str, data: &[u8]) -> Result<Option<(String, Vec<(String, String, String)>)>, String> {
    match par::guard(|| sdk::read(sdk::ctx(), mime, data)) {
        Err(p) => Err(format!("panic {p}")),
        Ok(Err(c2pa::Error::JumbfNotFound)) => Ok(None),
        Ok(Err(e)) => Err(format!("{e:?}")),
        Ok(Ok(rd)) => {
            let vr = rd.validation_results().map(|v| serde_json::to_value(v).unwrap_or(Value::Null)).unwrap_or(Value::Null);
            Ok(Some((sdk::state_name(rd.validation_state()).to_string(), failures_of(&vr))))
        }
    }
}

/// (where, code, url) of every failure in a serialised ValidationResults.
pub fn failures_of(vr: &Value) -> Vec<(String, String, String)> {
    let mut out = vec![];
    if let Some(f) = vr["activeManifest"]["failure"].as_array() {
        for s in f {
            out.push(("activeManifest".to_string(), s["code"].as_str().unwrap_or("").to_string(), s["url"].as_str().unwrap_or("").to_string()));
        }
    }
    if let Some(ds) = vr["ingredientDeltas"].as_array() {
        for d in ds {
            if let Some(f) = d["validationDeltas"]["failure"].as_array() {
                for s in f {
                    out.push(("ingredientDeltas".to_string(), s["code"].as_str().unwrap_or("").to_string(), s["url"].as_str().unwrap_or("").to_string()));
                }
            }
        }
    }
    out.sort();
    out
}

pub fn seeds(thorough: bool) -> Vec<Seed> {
    let list = if thorough { assets::all() } else { assets::base() };
    let signer = sdk::fixture_signer("ed25519");
    let mut out = vec![];
    for a in list {
        let mut b = sdk::builder(sdk::ctx(), r#"{"title":"seed","claim_generator_info":[{"name":"kit","version":"1"}]}"#);
        let (signed, store) = sdk::sign(&mut b, signer.as_ref(), a.mime, &a.data).unwrap_or_else(|e| kit::ev::machinery(format!("C39 seed {}: {e:?}", a.name)));
        match read_alone(a.mime, &signed) {
            Ok(Some((s, _))) if s == "Valid" => {}
            x => kit::ev::machinery(format!("C39 seed {} does not read back Valid: {x:?}", a.name)),
        }
        if manifest_boxes(&store).map(|v| v.len()).unwrap_or(0) == 0 {
            kit::ev::machinery(format!("C39 seed {}: independent JUMBF walker cannot interpret the store", a.name));
        }
        // tamper: the last position (searching backwards) whose flip leaves a readable asset that reports a hard-binding mismatch
        let mut found = None;
        let n = signed.len();
        // candidates: the last 64 bytes backwards, then bytes 8..400 forwards (formats that append the manifest), then the rest backwards
        let mut cand: Vec<usize> = (n.saturating_sub(64)..n).rev().collect();
        cand.extend(8..n.min(400));
        cand.extend((0..n.saturating_sub(64)).rev());
        for pos in cand {
            let mut t = signed.clone();
            t[pos] ^= 0x01;
            if let Ok(Some((s, f))) = read_alone(a.mime, &t) {
                if s == "Invalid" && f.iter().any(|x| x.1.contains("ash.mismatch") || x.1.contains("Hash.mismatch")) {
                    found = Some((pos, t));
                    break;
                }
            }
        }
        let Some((tamper_pos, tampered)) = found else {
            kit::ev::machinery(format!("C39 seed {}: no single byte flip gives a readable asset with a hash mismatch", a.name));
        };
        let (json_signed, json_tampered) = (emitted_json(a.mime, &signed), emitted_json(a.mime, &tampered));
        if !json_signed["validation_results"].is_object() || !json_tampered["validation_results"].is_object() {
            kit::ev::machinery(format!("C39 seed {}: the emitted ingredient JSON carries no validation_results", a.name));
        }
        out.push(Seed { name: a.name.to_string(), mime: a.mime, unsigned: a.data.clone(), signed, store, tampered, tamper_pos, json_signed, json_tampered });
    }
    out
}

#[derive(Clone, Debug)]
pub struct Case {
    pub seed: String,
    pub state: String,
    pub rel: String,
    pub mode: String,
    pub parent: String,
    /// ingredient definition passed with the stream: "minimal" | "emitted-same" (the SDK-emitted JSON of the very asset in the
    /// stream: accurate validation_results) | "emitted-other" (emitted for the pristine asset while the stream is the tampered
    /// one, or vice versa: stale validation_results)
    pub def: String,
}
impl Case {
    pub fn to_json(&self) -> Value {
        json!({"seed": self.seed, "state": self.state, "rel": self.rel, "mode": self.mode, "parent": self.parent, "def": self.def})
    }
    pub fn from_json(v: &Value) -> Case {
        Case {
            seed: v["seed"].as_str().unwrap_or("jpeg").into(),
            state: v["state"].as_str().unwrap_or("signed").into(),
            rel: v["rel"].as_str().unwrap_or("componentOf").into(),
            mode: v["mode"].as_str().unwrap_or("direct").into(),
            parent: v["parent"].as_str().unwrap_or("jpeg").into(),
            def: v["def"].as_str().unwrap_or("minimal").into(),
        }
    }
    pub fn id(&self) -> String {
        format!("{}/{}/{}/{}/{} in {}", self.seed, self.state, self.rel, self.mode, self.def, self.parent)
    }
}

pub fn new_builder(rel: &str, title: &str) -> Builder {
    let mut b = Builder::from_context(sdk::ctx())
        .with_definition(json!({"title": title, "claim_generator_info": [{"name": "kit", "version": "1"}]}))
        .unwrap_or_else(|e| kit::ev::machinery(format!("C39 definition: {e:?}")));
    if rel == "parentOf" {
        b.set_intent(BuilderIntent::Edit);
    } else {
        b.set_intent(BuilderIntent::Create(DigitalSourceType::DigitalCapture));
    }
    b
}

/// Sign `parent` with `ing` (mime, bytes) added as an ingredient; returns (asset, store).
/// The ingredient definition JSON for a case (first hop only; later hops of a chain use the minimal one).
pub fn ingredient_json(c: &Case, s: Option<&Seed>) -> String {
    let minimal = json!({"title": "the-ingredient", "relationship": c.rel});
    let Some(s) = s else { return minimal.to_string() };
    let mut j = match (c.def.as_str(), c.state.as_str()) {
        ("emitted-same", "signed") | ("emitted-other", "tampered") => s.json_signed.clone(),
        ("emitted-same", "tampered") | ("emitted-other", "signed") => s.json_tampered.clone(),
        _ => return minimal.to_string(),
    };
    j["title"] = json!("the-ingredient");
    j["relationship"] = json!(c.rel);
    j.to_string()
}

pub fn make_parent(c: &Case, title: &str, ing_mime: &str, ing: &[u8], via_archive: bool, seed: Option<&Seed>) -> Result<(Vec<u8>, Vec<u8>), String> {
    let p = assets::by_name(&c.parent);
    let signer = sdk::fixture_signer("ed25519");
    let ing_json = ingredient_json(c, seed);
    let mut b = new_builder(&c.rel, title);
    if via_archive {
        let mut b1 = new_builder(&c.rel, "archiver");
        let id = {
            let i = b1.add_ingredient_from_stream(ing_json.clone(), ing_mime, &mut Cursor::new(ing)).map_err(|e| format!("add(archiver): {e:?}"))?;
            match i.label() { Some(l) if !l.is_empty() => l.to_string(), _ => i.instance_id().to_string() }
        };
        let mut buf = Cursor::new(Vec::new());
        b1.write_ingredient_archive(&id, &mut buf).map_err(|e| format!("write_ingredient_archive: {e:?}"))?;
        buf.set_position(0);
        b.add_ingredient_from_stream(ing_json, "application/c2pa", &mut buf).map_err(|e| format!("add(archive): {e:?}"))?;
    } else {
        b.add_ingredient_from_stream(ing_json, ing_mime, &mut Cursor::new(ing)).map_err(|e| format!("add: {e:?}"))?;
    }
    sdk::sign(&mut b, signer.as_ref(), p.mime, &p.data).map_err(|e| format!("sign: {e:?}"))
}

/// Judge one (ingredient asset, its store if any) against the parent that was built from it.
fn judge_parent(ing_mime: &str, ing: &[u8], ing_store: Option<&[u8]>, parent_mime: &str, parent: &[u8], parent_store: &[u8], fails: &mut Vec<(String, String)>) {
    let alone = match read_alone(ing_mime, ing) {
        Ok(x) => x,
        Err(e) => { fails.push(("harness ingredient-unreadable-alone".into(), e)); return; }
    };
    let pboxes = match manifest_boxes(parent_store) {
        Ok(b) => b,
        Err(e) => { fails.push(("parent-store-unparseable".into(), e)); return; }
    };
    // (a) manifests carried unchanged
    match ing_store {
        Some(s) => {
            let iboxes = manifest_boxes(s).unwrap_or_default();
            for (label, bytes) in &iboxes {
                match pboxes.iter().find(|(l, _)| l == label) {
                    None => fails.push(("manifest-missing".into(), format!("manifest {label} of the ingredient is not in the new store (labels there: {:?})", pboxes.iter().map(|x| &x.0).collect::<Vec<_>>()))),
                    Some((_, pb)) if pb != bytes => fails.push(("manifest-altered".into(), format!("manifest {label}: {} bytes in the ingredient, {} bytes in the new store, first difference at {:?}", bytes.len(), pb.len(), bytes.iter().zip(pb.iter()).position(|(x, y)| x != y)))),
                    _ => {}
                }
            }
            if pboxes.len() != iboxes.len() + 1 {
                fails.push(("manifest-count".into(), format!("new store has {} manifests, ingredient store has {}", pboxes.len(), iboxes.len())));
            }
        }
        None => {
            if pboxes.len() != 1 {
                fails.push(("unsigned-adds-manifest".into(), format!("unsigned ingredient, yet the new store has {} manifests", pboxes.len())));
            }
        }
    }
    // (b) recorded validation
    let rd = match par::guard(|| sdk::read(sdk::ctx(), parent_mime, parent)) {
        Ok(Ok(r)) => r,
        Ok(Err(e)) => { fails.push((format!("parent-unreadable kind={}", sdk::err_kind(&e)), format!("{e:?}"))); return; }
        Err(p) => { fails.push(("parent-read-panic".into(), p)); return; }
    };
    let j: Value = serde_json::from_str(&rd.json()).unwrap_or(Value::Null);
    let active = j["active_manifest"].as_str().unwrap_or("");
    let empty = vec![];
    let ings = j["manifests"][active]["ingredients"].as_array().unwrap_or(&empty);
    let Some(entry) = ings.iter().find(|i| i["title"].as_str() == Some("the-ingredient")) else {
        fails.push(("ingredient-not-reported".into(), format!("reported ingredients: {:?}", ings.iter().map(|i| i["title"].clone()).collect::<Vec<_>>())));
        return;
    };
    let rec_fail = failures_of(&entry["validation_results"]);
    match alone {
        None => {
            if entry["active_manifest"].is_string() || entry["manifest_data"].is_object() {
                fails.push(("unsigned-has-manifest".into(), format!("ingredient entry: active_manifest {:?} manifest_data {:?}", entry["active_manifest"], entry["manifest_data"])));
            }
            let vs = entry["validation_status"].as_array().map(|a| a.len()).unwrap_or(0);
            if !rec_fail.is_empty() || vs > 0 {
                fails.push(("unsigned-has-failure".into(), format!("recorded failures {rec_fail:?}, validation_status {:?}", entry["validation_status"])));
            }
        }
        Some((state, alone_fail)) => {
            if !entry["active_manifest"].is_string() {
                fails.push(("signed-without-active-manifest".into(), "ingredient entry has no active_manifest".into()));
            }
            // the state the recorded results amount to, by the SDK's own derivation (signingCredential.untrusted sits in
            // the failure bin without making a manifest Invalid)
            let rec_state = match serde_json::from_value::<c2pa::ValidationResults>(entry["validation_results"].clone()) {
                Ok(vr) => sdk::state_name(vr.validation_state()),
                Err(_) => "unparseable",
            };
            if rec_state != state {
                fails.push((format!("state-differs alone={state} recorded={rec_state}"), format!("alone failures {alone_fail:?}, recorded {rec_fail:?}")));
            }
            let ac: Vec<&String> = alone_fail.iter().map(|x| &x.1).collect();
            let rc: Vec<&String> = rec_fail.iter().map(|x| &x.1).collect();
            if ac != rc {
                fails.push((format!("failure-codes-differ alone={ac:?} recorded={rc:?}"), format!("alone {alone_fail:?}, recorded {rec_fail:?}")));
            } else if alone_fail != rec_fail {
                fails.push(("failure-urls-differ".into(), format!("alone {alone_fail:?}, recorded {rec_fail:?}")));
            }
        }
    }
}

pub fn run_case(c: &Case, seeds: &[Seed]) -> Result<(String, Vec<(String, String)>), String> {
    par::guard(|| {
        let s = seeds.iter().find(|s| s.name == c.seed).unwrap_or_else(|| kit::ev::machinery("C39: unknown seed"));
        let (ing, store): (&Vec<u8>, Option<&[u8]>) = match c.state.as_str() {
            "signed" => (&s.signed, Some(&s.store)),
            "tampered" => (&s.tampered, Some(&s.store)),
            _ => (&s.unsigned, None),
        };
        let pm = assets::by_name(&c.parent).mime;
        let mut fails = vec![];
        match c.mode.as_str() {
            "direct" | "archive" => match make_parent(c, "outer", s.mime, ing, c.mode == "archive", Some(s)) {
                Err(e) => fails.push((format!("build-error step={}", e.split(':').next().unwrap_or("")), e)),
                Ok((out, pstore)) => judge_parent(s.mime, ing, store, pm, &out, &pstore, &mut fails),
            },
            _ => match make_parent(c, "middle", s.mime, ing, false, Some(s)) {
                Err(e) => fails.push((format!("build-error step=middle-{}", e.split(':').next().unwrap_or("")), e)),
                Ok((mid, mid_store)) => match make_parent(c, "outer", pm, &mid, false, None) {
                    Err(e) => fails.push((format!("build-error step=outer-{}", e.split(':').next().unwrap_or("")), e)),
                    Ok((out, pstore)) => judge_parent(pm, &mid, Some(&mid_store), pm, &out, &pstore, &mut fails),
                },
            },
        }
        let class = if fails.is_empty() { "faithful".to_string() } else { "unfaithful".to_string() };
        (class, fails)
    })
}

static STATS: std::sync::OnceLock<kit::defs::KeyStats> = std::sync::OnceLock::new();

fn judge(run: &Run, c: &Case, seeds: &[Seed]) {
    let r = run_case(c, seeds);
    run.eval();
    match r {
        Err(p) => {
            run.outcome("panic");
            run.violation(format!("panic state={} rel={} mode={} def={}", c.state, c.rel, c.mode, c.def), format!("{}: {p}", c.id()), c.to_json());
        }
        Ok((class, fails)) => {
            run.outcome(format!("{class}:{}", c.state));
            if !fails.iter().any(|f| f.0.starts_with("build-error") || f.0.starts_with("harness")) {
                run.nontrivial(c.id());
            }
            for (k, w) in fails {
                if k.starts_with("harness") {
                    kit::ev::machinery(format!("C39 {}: {k}: {w}", c.id()));
                }
                STATS.get_or_init(Default::default).violation(run, 25, format!("{k} state={} rel={} mode={} def={} seed={}", c.state, c.rel, c.mode, c.def, c.seed), format!("{}: {w}", c.id()), c.to_json());
            }
        }
    }
}

pub fn run(run: &Run, replay: Option<&Value>) {
    run.rule("cases = ingredient (kit asset of every format, in state signed / tampered by one flipped media byte / unsigned) x relationship {parentOf, componentOf, inputTo} x \
              {direct add_ingredient_from_stream, via write_ingredient_archive + add as application/c2pa, chain of 2 (ingredient of an ingredient)}; the new asset is signed and read. \
              non-trivial = distinct cases whose parent could be built so that store bytes and recorded validation were compared with the ingredient read on its own.");
    run.assume("the store bytes returned by Builder::sign for the ingredient are taken as the ingredient's manifest store; superboxes are compared with an independent JUMBF walker");
    run.assume("recorded state = Invalid iff the ingredient's recorded validation_results contain a failure; failure codes compared as sorted lists (then with URLs)");
    run.assume("whatever validation_results the ingredient definition already carries, the recorded results must be those of the stream as it validates now (the property's 'obtained by reading the ingredient on its own')");
    run.assume("intent Edit for parentOf, Create otherwise, so the ingredient under test is the only one");
    let thorough = run.tier.is_thorough();
    let seeds = seeds(thorough || replay.is_some());
    if let Some(c) = replay {
        let case = Case::from_json(c);
        match run_case(&case, &seeds) {
            Ok((class, f)) => println!("replay {}: {class} {f:?}", case.id()),
            Err(p) => println!("replay {}: panic {p}", case.id()),
        }
        judge(run, &case, &seeds);
        return;
    }
    let parents: Vec<&str> = if thorough { vec!["jpeg", "png", "mp4"] } else { vec!["jpeg"] };
    let mut cases = vec![];
    for s in &seeds { for st in STATES { for rel in RELS { for mode in MODES { for p in &parents {
        for def in ["minimal", "emitted-same", "emitted-other"] {
            // definitions that carry validation_results exist for signed / tampered streams; routes: direct and via archive (thorough: chain too)
            if def != "minimal" && (st == "unsigned" || (mode == "chain2" && !thorough)) { continue; }
            cases.push(Case { seed: s.name.clone(), state: st.into(), rel: rel.into(), mode: mode.into(), parent: p.to_string(), def: def.into() });
        }
    }}}}}
    run.space(&format!("seed asset({}) x state(3) x relationship(3) x mode(3) x parent asset({}) x ingredient definition {{minimal; for signed/tampered streams also the SDK-emitted JSON of the same asset and of the other (pristine<->tampered) asset, on the direct and archive routes (thorough: chain too)}}", seeds.len(), parents.len()), cases.len() as u64, true);
    // determinism
    {
        let c = Case { seed: "png".into(), state: "tampered".into(), rel: "componentOf".into(), mode: "chain2".into(), parent: "jpeg".into(), def: "minimal".into() };
        let keys = |r: Result<(String, Vec<(String, String)>), String>| r.map(|(c, f)| format!("{c} {:?}", f.into_iter().map(|x| x.0).collect::<Vec<_>>()));
        let x = keys(run_case(&c, &seeds));
        let y = keys(run_case(&c, &seeds));
        run.evals(2);
        if x != y {
            kit::ev::machinery(format!("C39: the same case judged differently twice: {x:?} / {y:?}"));
        }
    }
    for s in seeds.iter().take(3) {
        run.sample(json!({"seed": s.name, "signed_len": s.signed.len(), "tampered_byte": s.tamper_pos, "alone_signed": format!("{:?}", read_alone(s.mime, &s.signed)), "alone_tampered": format!("{:?}", read_alone(s.mime, &s.tampered))}));
    }
    par::for_each(&cases, |c| judge(run, c, &seeds));
    STATS.get_or_init(Default::default).finish(run, "C39");
    run.sample(json!({"case": cases[cases.len() / 2].to_json()}));
}

//! C07 — embedding round trip: write, read, replace and remove manifest stores.
//!
//! S-inp: for every seed asset (every writable format, variants with XMP / extra chunks / trailing data /
//! a foreign manifest) and EVERY store length in a contiguous range plus windows around the container
//! boundaries, on the real handlers through the public `jumbf_io::{save,load}_jumbf_*_memory` and the
//! `remove_cai_store` hook. S-seq: BFS over {write A, write B, write C, remove} from three initial states
//! with de-duplication of states by their bytes; the reference model is `Option<store>`.
//! The oracle side is `kit::walk` (independent container walkers): exactly one manifest container whose
//! payload is the model's store, none after removal.
//!
//! Mutants caught (tools/mutant_run.sh A <diff> C07 quick; each adds keys that do not occur on the unchanged tree):
//!   C07-jpeg-seg-size.diff  (MAX_JPEG_MARKER_SIZE 64000 -> 65530)          -> VIOLATION "write-error PANIC fmt=Jpeg ..." at n >= 65531, "bfs op-error op=wB PANIC fmt=Jpeg"
//!   C07-riff-keep-old.diff  (RIFF writer keeps the old C2PA chunk on write) -> VIOLATION "replace-shrink several-containers fmt=Riff", "replace-foreign readback-differs fmt=Riff", "bfs several-containers ..."
//!
//! Findings on the unchanged tree (genuine, see the report to the lead):
//!   remove ... fmt=Riff / bfs ... op=rm fmt=Riff : RiffIO::remove_cai_store_from_stream = write_cai(.., &[]) never drops the C2PA chunk
//!   raw-store readback-differs fmt=Tiff (n <= 4, little-endian): inline TIFF value treated as an offset
//!   valid-asset-rejected fmt=Gif (plain text extension header skipped as 11 instead of 13 bytes), fmt=Tiff (big-endian BigTIFF IFD8 sub-IFD)

use kit::embed::{self, is_panic, kind_of_err, load, locations, remove, save};
use kit::walk;
use kit::{assets::Asset, par, Run};
use serde_json::{json, Value};
use std::collections::{BTreeMap, HashMap};

const FOREIGN: usize = 333;

fn viol(run: &Run, what_class: &str, a: &Asset, detail: String, case: Value) {
    embed::report(run, format!("{what_class} fmt={:?} asset={}", embed::kind(a), a.name), detail, case);
}

/// Judge one state against the model. Returns a list of (class, detail) failures.
fn judge(a: &Asset, bytes: &[u8], model: Option<&[u8]>) -> Vec<(String, String)> {
    let mut f = vec![];
    let k = embed::kind(a);
    let l = load(a.mime, bytes);
    match (model, &l) {
        (Some(s), Ok(b)) if b.as_slice() == s => {}
        (Some(s), Ok(b)) => f.push(("readback-differs".to_string(), format!("load returned {} bytes that differ from the {} written (first diff at {:?})", b.len(), s.len(), b.iter().zip(s.iter()).position(|(x, y)| x != y)))),
        (Some(s), Err(e)) => f.push((format!("readback-error {}", kind_of_err(e)), format!("load after writing {} bytes fails: {e}", s.len()))),
        (None, Err(e)) if kind_of_err(e) == "JumbfNotFound" => {}
        (None, Ok(b)) => f.push(("removed-but-readable".to_string(), format!("load returns {} bytes although the model holds no manifest", b.len()))),
        (None, Err(e)) => f.push((format!("no-manifest-error {}", kind_of_err(e)), format!("asset without manifest is not accepted by the reader: {e}"))),
    }
    match walk::manifests(k, bytes) {
        Err(e) => f.push(("container-unparseable".to_string(), format!("independent walker cannot parse the result: {e}"))),
        Ok(ms) => match (model, ms.len()) {
            (None, 0) => {}
            (None, n) => f.push(("manifest-left-behind".to_string(), format!("{n} manifest container(s) present although the model holds none"))),
            (Some(_), 0) => f.push(("no-container".to_string(), "no manifest container found by the independent walker".to_string())),
            (Some(s), 1) => {
                if ms[0].payload != s {
                    f.push(("container-payload-differs".to_string(), format!("the single container holds {} bytes that differ from the {} written", ms[0].payload.len(), s.len())));
                }
            }
            (Some(_), n) => f.push(("several-containers".to_string(), format!("{n} manifest containers present after a write"))),
        },
    }
    f
}

fn accepted_after_remove(a: &Asset, bytes: &[u8]) -> Vec<(String, String)> {
    let mut f = vec![];
    if let Err(e) = locations(a.mime, bytes) {
        f.push((format!("after-remove locations {}", kind_of_err(&e)), format!("object locations of the asset after removal fail: {e}")));
    }
    let s = embed::store(77, 5);
    match save(a.mime, bytes, &s) {
        Err(e) => f.push((format!("after-remove write {}", kind_of_err(&e)), format!("writing into the asset after removal fails: {e}"))),
        Ok(o) => {
            for (c, d) in judge(a, &o, Some(&s)) {
                f.push((format!("after-remove {c}"), d));
            }
        }
    }
    f
}

/// One length case. `full` adds the replace / remove legs.
fn len_case(run: &Run, a: &Asset, pre: &[u8], n: usize, full: bool) {
    run.eval();
    let case = json!({"part":"len","asset":a.name,"n":n,"full":full});
    let s = embed::store(n, 1);
    let out = match save(a.mime, &a.data, &s) {
        Ok(o) => o,
        Err(e) => {
            run.outcome(format!("write-err {}", kind_of_err(&e)));
            viol(run, &format!("write-error {}", kind_of_err(&e)), a, format!("writing a well-formed {n}-byte store fails: {e}"), case);
            return;
        }
    };
    let mut fails = judge(a, &out, Some(&s));
    if fails.is_empty() {
        run.nontrivial(format!("{}/{}", a.name, n));
    }
    if full {
        // replace by a shorter one
        let t = embed::store(embed::MIN_STORE + n % 7, 3);
        match save(a.mime, &out, &t) {
            Err(e) => fails.push((format!("replace-shrink write-error {}", kind_of_err(&e)), e)),
            Ok(o2) => fails.extend(judge(a, &o2, Some(&t)).into_iter().map(|(c, d)| (format!("replace-shrink {c}"), d))),
        }
        // replace an existing (foreign) one by this one
        match save(a.mime, pre, &s) {
            Err(e) => fails.push((format!("replace-foreign write-error {}", kind_of_err(&e)), e)),
            Ok(o3) => fails.extend(judge(a, &o3, Some(&s)).into_iter().map(|(c, d)| (format!("replace-foreign {c}"), d))),
        }
        // remove
        match remove(a.mime, &out) {
            Err(e) => fails.push((format!("remove-error {}", kind_of_err(&e)), e)),
            Ok(r) => {
                fails.extend(judge(a, &r, None).into_iter().map(|(c, d)| (format!("remove {c}"), d)));
                if n % 64 == 0 {
                    fails.extend(accepted_after_remove(a, &r));
                }
            }
        }
    }
    if fails.is_empty() {
        run.outcome("roundtrip-ok");
    }
    for (c, d) in fails {
        run.outcome(c.clone());
        viol(run, &c, a, format!("n={n}: {d}"), case.clone());
    }
}

/// Short / non-JUMBF strings: "error or exact bytes, never different bytes".
fn raw_case(run: &Run, a: &Asset, n: usize) {
    run.eval();
    let case = json!({"part":"raw","asset":a.name,"n":n});
    let s = embed::raw(n, 2);
    match save(a.mime, &a.data, &s) {
        Err(e) if is_panic::<()>(&Err(e.clone())) => viol(run, "raw-store write-panic", a, format!("n={n}: {e}"), case),
        Err(e) => run.outcome(format!("raw write-err {}", kind_of_err(&e))),
        Ok(out) => match load(a.mime, &out) {
            Ok(b) if b == s => {
                run.outcome("raw roundtrip-ok");
                run.nontrivial(format!("raw/{}/{}", a.name, n));
            }
            Ok(b) => {
                run.outcome("raw readback-differs");
                viol(run, "raw-store readback-differs", a, format!("n={n}: wrote {:02x?}.. read back {} different bytes {:02x?}..", &s[..n.min(8)], b.len(), &b[..b.len().min(8)]), case);
            }
            Err(e) if e.starts_with("PANIC") => viol(run, "raw-store read-panic", a, format!("n={n}: {e}"), case),
            Err(e) => run.outcome(format!("raw read-err {}", kind_of_err(&e))),
        },
    }
}

const OPS: [&str; 4] = ["wA", "wB", "wC", "rm"];

fn op_store(op: &str) -> Option<Vec<u8>> {
    match op {
        "wA" => Some(embed::store(100, 1)),
        "wB" => Some(embed::store(70_001, 2)),
        "wC" => Some(embed::store(100, 3)),
        "foreign" => Some(embed::store(FOREIGN, 9)),
        _ => None,
    }
}

fn apply(a: &Asset, bytes: &[u8], op: &str) -> embed::Out<Vec<u8>> {
    match op_store(op) {
        Some(s) => save(a.mime, bytes, &s),
        None => remove(a.mime, bytes),
    }
}

fn initial(a: &Asset, init: &str) -> (Vec<u8>, Option<&'static str>) {
    match init {
        "bare" => (a.data.clone(), None),
        "foreign" => (
            save(a.mime, &a.data, &op_store("foreign").unwrap()).unwrap_or_else(|e| kit::ev::machinery(format!("C07: cannot prepare foreign-manifest state of {}: {e}", a.name))),
            Some("foreign"),
        ),
        // a removed-from state: the asset as the handler itself re-serialises it
        "rewritten" => (
            remove(a.mime, &a.data).unwrap_or_else(|e| kit::ev::machinery(format!("C07: cannot prepare rewritten state of {}: {e}", a.name))),
            None,
        ),
        _ => kit::ev::machinery("C07: unknown initial state"),
    }
}

/// BFS from one initial state. Returns (states, transitions).
fn bfs(run: &Run, a: &Asset, init: &str, depth: usize) -> (u64, u64) {
    let (b0, m0) = initial(a, init);
    // state = bytes; identical bytes reached with different models would itself be a contradiction
    let mut seen: HashMap<Vec<u8>, Option<&'static str>> = HashMap::new();
    let mut frontier: Vec<(Vec<u8>, Option<&'static str>, Vec<&'static str>)> = vec![(b0.clone(), m0, vec![])];
    seen.insert(b0, m0);
    let (mut states, mut trans) = (1u64, 0u64);
    for _d in 0..depth {
        let mut next = vec![];
        for (bytes, _model, path) in &frontier {
            for op in OPS {
                trans += 1;
                run.eval();
                let mut p = path.clone();
                p.push(op);
                let case = json!({"part":"bfs","asset":a.name,"init":init,"path":p});
                let nm: Option<&'static str> = if op == "rm" { None } else { Some(op) };
                match apply(a, bytes, op) {
                    Err(e) => {
                        run.outcome(format!("bfs {op} error {}", kind_of_err(&e)));
                        viol(run, &format!("bfs op-error op={op} {}", kind_of_err(&e)), a, format!("init={init} path={p:?}: {e}"), case);
                    }
                    Ok(nb) => {
                        let ms = nm.and_then(op_store);
                        let mut fails = judge(a, &nb, ms.as_deref());
                        if op == "rm" {
                            fails.extend(accepted_after_remove(a, &nb));
                        }
                        if fails.is_empty() {
                            run.outcome(format!("bfs {op} ok"));
                            run.nontrivial(format!("bfs/{}/{}/{}", a.name, init, p.join(",")));
                        }
                        for (c, d) in fails {
                            run.outcome(format!("bfs {c}"));
                            viol(run, &format!("bfs {c} op={op}"), a, format!("init={init} path={p:?}: {d}"), case.clone());
                        }
                        match seen.get(&nb) {
                            Some(old) if *old != nm => {
                                // same bytes, different model value: one of the two reads must be wrong (already reported by judge)
                            }
                            Some(_) => {}
                            None => {
                                seen.insert(nb.clone(), nm);
                                states += 1;
                                next.push((nb, nm, p));
                            }
                        }
                    }
                }
            }
        }
        frontier = next;
        if frontier.is_empty() {
            break;
        }
    }
    (states, trans)
}

pub fn run(run: &Run, replay: Option<&Value>) {
    run.rule("per seed asset: (1) every well-formed C2PA store length n in the stated set is written into the bare asset, read back and located by the independent walker; \
              with the replace-shrink / replace-foreign / remove legs on every n <= 1024 and the boundary windows; non-trivial = cases where the write succeeded and both the SDK reader and the independent walker returned exactly the written bytes from exactly one container; \
              (2) every raw (non-JUMBF) string length 1..300 with the weakened oracle 'error or exact bytes'; \
              (3) BFS over {wA(100 B), wB(70001 B), wC(100 B, other content), rm} to the stated depth from {bare, foreign manifest present, handler-rewritten}; states de-duplicated by bytes; non-trivial = transitions whose result satisfied the model.");
    run.assume("store byte strings are well-formed JUMBF superboxes with the C2PA description box (exact LBox) padded by a free box; shorter / arbitrary strings only get the weakened oracle");
    run.assume("the independent walkers in kit::walk define what a manifest container is (APP11 JPEG-XT C2PA box groups, caBX, C2PA_GIF app extension, top-level C2PA RIFF chunk, TIFF tag 0xCD41 reachable from the main IFD chain, svg/metadata/c2pa:manifest, C2PA GEOB frames, c2pa-labelled jumb box, C2PA uuid box, whole sidecar file); bytes no longer referenced by the container (TIFF clones) do not count as a present store");
    let seeds = embed::seeds();
    if let Some(c) = replay {
        return replay_case(run, c);
    }

    // own the nondeterminism: same write twice gives the same bytes
    for a in &seeds {
        let s = embed::store(500, 1);
        let (x, y) = (save(a.mime, &a.data, &s), save(a.mime, &a.data, &s));
        if x != y {
            kit::ev::machinery(format!("C07: writing the same store twice into {} gives different results", a.name));
        }
        if let Err(e) = walk::media(embed::kind(a), &a.data) {
            kit::ev::machinery(format!("C07: independent walker cannot interpret seed {}: {e}", a.name));
        }
        if let Err(e) = &x {
            kit::ev::machinery(format!("C07: seed {} not accepted by its handler: {e}", a.name));
        }
    }

    // ---- (0) files that are valid per their format specification but use rarer forms --------------------
    let extra = embed::valid_but_unsupported();
    run.space("valid-per-spec files using rarer forms (GIF plain text extension, BigTIFF IFD8 sub-IFD): accepted?", extra.len() as u64, true);
    for a in &extra {
        run.eval();
        let s = embed::store(100, 1);
        match save(a.mime, &a.data, &s) {
            Err(e) => {
                run.outcome("valid-asset-rejected");
                embed::report(run, format!("valid-asset-rejected fmt={:?} asset={}", embed::kind(&a), a.name), format!("a {}-byte file that is valid per its format specification is refused by write_cai: {e}", a.data.len()), json!({"part":"extra","asset":a.name}));
            }
            Ok(o) => {
                run.outcome("rare-form accepted");
                for (c, d) in judge(a, &o, Some(&s)) {
                    viol(run, &c, a, d, json!({"part":"extra","asset":a.name}));
                }
            }
        }
    }

    // ---- (1) lengths -------------------------------------------------------------------------------
    let quick = embed::quick_lengths();
    // the replace-shrink / replace-foreign / remove legs run on every n <= 1024 and on the boundary windows
    let qset: std::collections::BTreeSet<usize> = quick.iter().cloned().filter(|n| *n <= 1024 || *n > 4096).collect();
    let pres: Vec<Vec<u8>> = seeds.iter().map(|a| initial(a, "foreign").0).collect();
    // (seed index, n) pairs. quick: all seeds x quick set. thorough: all seeds x every n <= 20000 (and the quick set), and one
    // seed per format (+ the structurally different ones) x every n in (20000, 200000].
    const LONG_RANGE_SEEDS: [&str; 20] = ["jpeg", "png", "gif", "wav", "webp", "avi", "tiff", "svg", "mp3", "flac", "jxl", "mp4", "heic", "c2pa", "jpeg-xmp", "mp4-mdat-first", "tiff-MM-big-2pages", "avi-avix", "mp3-bare", "svg-meta"];
    let mut cases: Vec<(usize, usize)> = vec![];
    for (i, a) in seeds.iter().enumerate() {
        if run.tier.is_thorough() {
            let top = if LONG_RANGE_SEEDS.contains(&a.name) { 200_000 } else { 20_000 };
            cases.extend((embed::MIN_STORE..=top).map(|n| (i, n)));
            cases.extend(quick.iter().filter(|n| **n > top).map(|n| (i, *n)));
        } else {
            cases.extend(quick.iter().map(|n| (i, *n)));
        }
    }
    run.space(&format!("store lengths: {} seeds x {}; replace/remove legs on {} lengths (n<=1024 + windows)", seeds.len(),
        if run.tier.is_thorough() { "every n in [46,20000] + boundary windows, and every n in [46,200000] for 20 seeds (one per format + structural variants)" } else { "every n in [46,4096] and +-8 around 64000k (k<=3), 65536k (k<=2)" }, qset.len()),
        cases.len() as u64, true);
    par::for_each(&cases, |(ai, n)| len_case(run, &seeds[*ai], &pres[*ai], *n, qset.contains(n)));

    // ---- (2) raw strings -----------------------------------------------------------------------------
    let raws: Vec<usize> = (1..=300).collect();
    run.space("raw (non-JUMBF) store strings: every length 1..300 per seed, weakened oracle", (seeds.len() * raws.len()) as u64, true);
    par::for_each_index((seeds.len() * raws.len()) as u64, |i| {
        raw_case(run, &seeds[(i as usize) % seeds.len()], raws[(i as usize) / seeds.len()]);
    });

    // ---- (3) BFS ---------------------------------------------------------------------------------------
    let depth = run.tier.pick(4, 5);
    let jobs: Vec<(usize, &str)> = (0..seeds.len()).flat_map(|i| ["bare", "foreign", "rewritten"].into_iter().map(move |s| (i, s))).collect();
    let tot = std::sync::Mutex::new((0u64, 0u64, BTreeMap::<String, u64>::new()));
    par::for_each(&jobs, |(i, init)| {
        let (s, t) = bfs(run, &seeds[*i], init, depth);
        let mut g = tot.lock().unwrap();
        g.0 += s;
        g.1 += t;
        g.2.insert(format!("{}/{}", seeds[*i].name, init), s);
    });
    let g = tot.lock().unwrap();
    run.states(g.0);
    run.transitions(g.1);
    run.traces(g.1);
    run.space(&format!("BFS depth {depth} over 4 ops from 3 initial states per seed (all sequences; states merged by bytes)"), g.1, true);
    run.extra("bfs_max_depth", json!(depth));
    run.extra("bfs_states_per_seed_min_max", json!([g.2.values().min(), g.2.values().max()]));
    run.sample(json!({"asset":"jpeg","n":64000,"flow":"write->load->walker; replace-shrink; replace-foreign; remove"}));
    run.sample(json!({"asset":"wav","n":63999,"flow":"odd RIFF size"}));
    run.sample(json!({"asset":"svg","n":4096,"flow":"base64 phase n%3=1"}));
    run.sample(json!({"part":"bfs","asset":"tiff-II-2pages","init":"foreign","path":["wB","rm","wA","wC"]}));
}

fn replay_case(run: &Run, c: &Value) {
    let a = embed::seed(c["asset"].as_str().unwrap_or(""));
    let before = run.violation_count();
    match c["part"].as_str() {
        Some("len") => {
            let pre = initial(&a, "foreign").0;
            len_case(run, &a, &pre, c["n"].as_u64().unwrap_or(0) as usize, c["full"].as_bool().unwrap_or(true));
        }
        Some("raw") => raw_case(run, &a, c["n"].as_u64().unwrap_or(0) as usize),
        Some("extra") => {
            run.eval();
            let r = save(a.mime, &a.data, &embed::store(100, 1));
            println!("replay: write into {} -> {:?}", a.name, r.as_ref().map(|o| o.len()));
            if let Err(e) = r {
                embed::report(run, format!("valid-asset-rejected fmt={:?} asset={}", embed::kind(&a), a.name), e, c.clone());
            }
        }
        Some("bfs") => {
            run.eval();
            let init = c["init"].as_str().unwrap_or("bare");
            let (mut bytes, _) = initial(&a, init);
            let mut model;
            for op in c["path"].as_array().cloned().unwrap_or_default() {
                let op = OPS.iter().find(|o| Some(**o) == op.as_str()).cloned().unwrap_or("rm");
                match apply(&a, &bytes, op) {
                    Err(e) => {
                        println!("replay: {op} -> error {e}");
                        embed::report(run, "replay", format!("{op}: {e}"), c.clone());
                        return;
                    }
                    Ok(nb) => {
                        bytes = nb;
                        model = if op == "rm" { None } else { Some(op) };
                        let fails = judge(&a, &bytes, model.and_then(op_store).as_deref());
                        println!("replay: {op} -> {} bytes, model {:?}, failures {:?}", bytes.len(), model, fails);
                        for (cl, d) in fails {
                            embed::report(run, format!("bfs {cl} op={op} asset={}", a.name), d, c.clone());
                        }
                    }
                }
            }
        }
        _ => kit::ev::machinery("C07 replay: unknown part"),
    }
    println!("replay: {} violation(s) reproduced", run.violation_count() - before);
}

//! C27 — redirects never reach internal addresses, at most ten redirects, none when disabled, credential
//! headers are not forwarded.
//!
//! S-env + S-inp, level model_checking. The SDK's redirect follower (hook `verif_hooks::net::redirect_resolver_*`)
//! runs over a scripted recording transport; every hop's answer is a choice point.
//!
//!  * space A (deviation bound 1, FULL Location alphabet): the default script redirects to a fresh public URL on
//!    every hop; for every hop position 0..=10 and every Location of the alphabet one run serves that Location there.
//!    The alphabet has, for every boundary address (first, last, just below, just above) of every IPv4 block the
//!    property names, EVERY notation of the WHATWG/`inet_aton` IPv4 grammar (1–4 parts x dec/hex/octal per part x
//!    trailing dot, upper-case hex, percent-encoded and full-width-digit host spellings), the IPv4-mapped IPv6
//!    spellings, IPv6 block boundaries in compressed/expanded/upper-case form, localhost names, userinfo/port
//!    decorations, relative and scheme-relative forms, and non-constrained controls (IPv4-compatible, NAT64, public).
//!  * space B (all scripts with <= 2 (quick) / <= 3 (thorough) deviations over a reduced answer alphabet): statuses
//!    200/404/3xx with and without Location, one representative per forbidden class, relative forms; x
//!    allow_redirects {true,false} x two request header sets x {sync, async}.
//!  * space C (classifier sweep through the real code path `host_is_non_global(Uri)`): quick = every /16 x 6 low
//!    words + three full /16 that contain /24 boundaries, mapped spellings of the same, all 2^16 leading IPv6
//!    segments x 3 tails; thorough = ALL 2^32 IPv4 addresses, 2^26 mapped spellings, all 2^16 leading segments.
//!
//!  * space D (chains that START at an internal/special host; the first request is outside the property, every later
//!    one is not): 24 internal/special start-host spellings + 2 public controls x 12 Location kinds (relative, same host
//!    other port / scheme / userinfo, other internal hosts, public) x hop position 0..=10 with all earlier hops staying on
//!    the current host.
//!
//! Oracle (from the property text): no request after the first goes to a host in a forbidden class (independent
//! classifier `kit::net::host_class` + by-construction truth of the generated Location); at most 11 requests per
//! call; allow_redirects=false => no request after the first; requests after the first carry none of
//! Authorization / Cookie / Proxy-Authorization / Host. Classifier sweep: address in a named block => classified
//! non-global (one direction only).
//!
//! Mutants caught (tools/mutant_run.sh D <patch> C27 quick):
//!   C27-drop-link-local.diff     (ipv4 link-local test removed)
//!   C27-one-more-redirect.diff   (0..=MAX_REDIRECTS+1)
//!   C27-forward-cookie.diff      (Cookie no longer stripped)
//!   C27-same-host-skips-classification.diff (independently seeded: a redirect staying on the current host string is not
//!                                            classified; missed before space D existed)

use std::sync::{
    atomic::{AtomicU64, Ordering},
    Mutex,
};

use c2pa::http::{http::Uri, AsyncHttpResolver, SyncHttpResolver};
use c2pa::verif_hooks::net as hooks;
use kit::{
    net::{self, Answer, Seen, Transport},
    par, Run,
};
use serde_json::{json, Value};

static CAP: net::KeyCap = net::KeyCap::new(20);
const START: &str = "http://start.example/a/b?c=d";
const SENSITIVE: [&str; 4] = ["authorization", "cookie", "proxy-authorization", "host"];

// ---------------------------------------------------------------------------------------------
// Location alphabet
// ---------------------------------------------------------------------------------------------

#[derive(Clone, Debug)]
struct Loc {
    text: String,
    /// `Some(class)`: by construction this Location denotes a host in a forbidden class.
    truth: Option<&'static str>,
    family: &'static str,
}

fn fmt_part(v: u64, radix: u8) -> String {
    match radix {
        0 => format!("{v}"),
        1 => format!("0x{v:x}"),
        _ => format!("0{v:o}"),
    }
}

/// Every notation of IPv4 address `a` in the inet_aton grammar.
fn v4_notations(a: u32) -> Vec<String> {
    let b = a.to_be_bytes().map(|x| x as u64);
    let a = a as u64;
    let shapes: [Vec<u64>; 4] = [
        vec![a],
        vec![b[0], a & 0xff_ffff],
        vec![b[0], b[1], a & 0xffff],
        vec![b[0], b[1], b[2], b[3]],
    ];
    let mut out = vec![];
    for parts in shapes {
        let n = parts.len();
        for combo in 0..3usize.pow(n as u32) {
            let mut c = combo;
            let mut s = vec![];
            for p in &parts {
                s.push(fmt_part(*p, (c % 3) as u8));
                c /= 3;
            }
            let h = s.join(".");
            out.push(format!("{h}."));
            out.push(h);
        }
    }
    // upper-case hex spellings
    out.push(format!("0X{a:X}"));
    out.push(format!("0X{:X}.0X{:X}.0X{:X}.0X{:X}", b[0], b[1], b[2], b[3]));
    out
}

fn dotted(a: u32) -> String {
    let b = a.to_be_bytes();
    format!("{}.{}.{}.{}", b[0], b[1], b[2], b[3])
}

fn pct(s: &str) -> String {
    s.bytes().map(|b| format!("%{b:02X}")).collect()
}

/// boundary addresses of every named IPv4 block: first, last, just below, just above
fn v4_boundaries() -> Vec<u32> {
    let mut v = vec![];
    for (net_, len, _) in net::V4_BLOCKS {
        let first = *net_;
        let last = *net_ | !net::v4_mask(*len);
        v.push(first);
        v.push(last);
        if let Some(x) = first.checked_sub(1) {
            v.push(x);
        }
        if let Some(x) = last.checked_add(1) {
            v.push(x);
        }
    }
    // well-known targets
    v.extend([0xA9FE_A9FE, 0x7F00_0001, 0xC0A8_0101, 0x5DB8_D822, 0x0808_0808]);
    v.sort();
    v.dedup();
    v
}

fn v6_boundaries() -> Vec<u128> {
    let mut v = vec![];
    for (net_, len, _) in net::V6_BLOCKS {
        let mask = if *len == 0 { 0 } else { u128::MAX << (128 - *len as u32) };
        let first = *net_;
        let last = *net_ | !mask;
        v.push(first);
        v.push(last);
        if let Some(x) = first.checked_sub(1) {
            v.push(x);
        }
        if let Some(x) = last.checked_add(1) {
            v.push(x);
        }
    }
    v.extend([
        0xfe80_0000_0000_0000_0000_0000_0000_0001u128,
        0xfd00_0000_0000_0000_0000_0000_0000_0001,
        0x2606_2800_0220_0001_0248_1893_25c8_1946,
        0x2001_0db8_0000_0000_0000_0000_0000_0001,
    ]);
    v.sort();
    v.dedup();
    v
}

fn v6_notations(a: u128) -> Vec<String> {
    let ip = std::net::Ipv6Addr::from(a);
    let s = ip.segments();
    let full = s.iter().map(|x| format!("{x:04x}")).collect::<Vec<_>>().join(":");
    let short = s.iter().map(|x| format!("{x:x}")).collect::<Vec<_>>().join(":");
    let mut v = vec![format!("{ip}"), full.clone(), full.to_uppercase(), short];
    // dotted tail for the low 32 bits
    let low = a as u32;
    let head = s[..6].iter().map(|x| format!("{x:x}")).collect::<Vec<_>>().join(":");
    v.push(format!("{head}:{}", dotted(low)));
    v.sort();
    v.dedup();
    v
}

fn full_alphabet() -> Vec<Loc> {
    let mut v: Vec<Loc> = vec![];
    let mut push = |text: String, truth: Option<&'static str>, family: &'static str| v.push(Loc { text, truth, family });
    for a in v4_boundaries() {
        let truth = net::v4_class(a);
        for n in v4_notations(a) {
            push(format!("http://{n}/x"), truth, "ipv4-notation");
        }
        let d = dotted(a);
        // decorations and other schemes / relative forms on the canonical spelling
        push(format!("https://{d}/"), truth, "ipv4-decorated");
        push(format!("http://{d}:8080/p?q#f"), truth, "ipv4-decorated");
        push(format!("http://user:pw@{d}/"), truth, "ipv4-decorated");
        push(format!("http://pub.example@{d}/"), truth, "ipv4-decorated");
        push(format!("//{d}/x"), truth, "ipv4-decorated");
        push(format!("http:\\\\{d}\\x"), truth, "ipv4-decorated");
        push(format!("HTTP://{d}"), truth, "ipv4-decorated");
        // percent-encoded and full-width spellings of the host (decoded / mapped by the URL parser)
        push(format!("http://{}/", pct(&d)), truth, "ipv4-pct");
        let fw: String = d.chars().map(|c| if c.is_ascii_digit() { char::from_u32(0xFF10 + (c as u32 - '0' as u32)).unwrap() } else { c }).collect();
        push(format!("http://{}/", pct(&fw)), truth, "ipv4-pct-fullwidth");
        push(format!("http://{}/", d.replace('.', "%E3%80%82")), truth, "ipv4-pct-ideographic-stop");
        // IPv4-mapped IPv6 spellings
        let b = a.to_be_bytes();
        let (hi, lo) = (u16::from_be_bytes([b[0], b[1]]), u16::from_be_bytes([b[2], b[3]]));
        for m in [
            format!("[::ffff:{d}]"),
            format!("[::ffff:{hi:x}:{lo:x}]"),
            format!("[0:0:0:0:0:ffff:{d}]"),
            format!("[::FFFF:{hi:04X}:{lo:04X}]"),
            format!("[0000:0000:0000:0000:0000:ffff:{hi:04x}:{lo:04x}]"),
        ] {
            push(format!("http://{m}/x"), truth, "ipv4-mapped");
            push(format!("http://{m}:8080/x"), truth, "ipv4-mapped");
        }
        // controls the property does not constrain (reported as outcomes only)
        push(format!("http://[::{d}]/"), None, "control-ipv4-compatible");
        push(format!("http://[64:ff9b::{d}]/"), None, "control-nat64");
        push(format!("http://[::ffff:0:{d}]/"), None, "control-ipv4-translated");
        push(format!("http://{d}.example/"), None, "control-name");
    }
    for a in v6_boundaries() {
        let truth = net::v6_class(a);
        for n in v6_notations(a) {
            push(format!("http://[{n}]/x"), truth, "ipv6");
            push(format!("https://u@[{n}]:8443/x"), truth, "ipv6");
        }
    }
    for (name, truth) in [
        ("localhost", Some("localhost")),
        ("LOCALHOST", Some("localhost")),
        ("LocalHost", Some("localhost")),
        ("localhost.", Some("localhost")),
        ("x.localhost", Some("localhost")),
        ("a.b.LOCALHOST.", Some("localhost")),
        ("%6Cocalhost", Some("localhost")),
        ("%6c%6f%63%61%6c%68%6f%73%74", Some("localhost")),
        ("notlocalhost", None),
        ("localhost.example", None),
        ("localhost.example.", None),
        ("pub.example", None),
    ] {
        for deco in ["http://{}/", "https://{}:8443/x", "http://user@{}/", "//{}/x"] {
            push(deco.replace("{}", name), truth, "name");
        }
    }
    // ASCII tab inside the URL (legal in a header value; the URL parser removes it)
    push("http://127.0.0.\t1/x".to_string(), Some("loopback"), "tab-in-url");
    push("http://local\thost/x".to_string(), Some("localhost"), "tab-in-url");
    push("ht\ttp://169.254.169.\t254/x".to_string(), Some("link-local"), "tab-in-url");
    push("http://pub.example\t/x".to_string(), None, "tab-in-url");
    // relative forms and other schemes (never forbidden by themselves: they stay on the current public host or have no host)
    for r in ["/x", "x", "../x", "?q=1", "#f", "", ".", "//", "///127.0.0.1/x", "http:/127.0.0.1/x", "http:127.0.0.1", "ftp://pub.example/x", "file:///etc/passwd", "data:text/plain,x", "javascript:alert(1)", "mailto:a@127.0.0.1", "http://", "http://[::1", "http://256.256.256.256/", "http://1.2.3.4.5/", "http://0x100000000/"] {
        push(r.to_string(), None, "relative-or-odd");
    }
    v
}

// ---------------------------------------------------------------------------------------------
// running a script
// ---------------------------------------------------------------------------------------------

fn default_answer(hop: usize) -> Answer {
    Answer::redirect(302, &format!("http://pub{hop}.example/p{hop}?k={hop}"))
}

#[derive(Debug, Clone)]
struct Obs {
    seen: Vec<Seen>,
    result: String,
}

fn header_set(id: usize) -> (&'static str, Vec<(&'static str, &'static str)>, Vec<u8>) {
    match id {
        0 => (
            "GET",
            vec![
                ("Authorization", "Bearer s3cr3t"),
                ("Cookie", "sid=1"),
                ("Proxy-Authorization", "Basic eDp5"),
                ("Host", "start.example"),
                ("Accept", "*/*"),
                ("X-Trace", "t-1"),
            ],
            vec![],
        ),
        _ => (
            "POST",
            vec![
                ("AUTHORIZATION", "Bearer s3cr3t"),
                ("authorization", "Basic second"),
                ("cookie", "a=1"),
                ("COOKIE", "b=2"),
                ("proxy-authorization", "Basic eDp5"),
                ("host", "start.example"),
                ("content-type", "application/timestamp-query"),
            ],
            vec![1, 2, 3],
        ),
    }
}

fn run_script(script: impl Fn(usize) -> Answer + Send + Sync + 'static, allow: bool, hset: usize, is_async: bool) -> Obs {
    run_script_from(START, script, allow, hset, is_async)
}

fn run_script_from(start: &str, script: impl Fn(usize) -> Answer + Send + Sync + 'static, allow: bool, hset: usize, is_async: bool) -> Obs {
    let t = Transport::new(move |i, _| script(i));
    let (method, headers, body) = header_set(hset);
    let req = net::request(method, start, &headers, body).unwrap_or_else(|| kit::ev::machinery("C27: start request not constructible"));
    let r = if is_async {
        let stack = hooks::redirect_resolver_async(t.clone(), allow);
        par::guard(|| net::block_on(stack.http_resolve_async(req)))
    } else {
        let stack = hooks::redirect_resolver_sync(t.clone(), allow);
        par::guard(|| stack.http_resolve(req))
    };
    let result = match r {
        Err(p) => format!("PANIC {p}"),
        Ok(Ok(resp)) => format!("Ok({})", resp.status().as_u16()),
        Ok(Err(e)) => format!("Err({})", net::err_class(&e)),
    };
    Obs { seen: t.seen(), result }
}

/// The four rules of the property on one observation. `forbidden_truth[k]`: request k+1 follows a Location that by
/// construction denotes a forbidden host (class).
fn judge(run: &Run, space: &str, allow: bool, obs: &Obs, truth_after: &dyn Fn(usize) -> Option<&'static str>, case: &Value) {
    if obs.result.starts_with("PANIC") {
        CAP.violation(run, format!("panic space={space}"), || obs.result.clone(), || case.clone());
    }
    if obs.seen.is_empty() {
        kit::ev::machinery(format!("C27: the initial request did not reach the transport: {obs:?}"));
    }
    // precondition: the initial request carried the sensitive headers
    for h in SENSITIVE {
        if !obs.seen[0].has_header(h) {
            kit::ev::machinery(format!("C27: initial request lacks header {h}"));
        }
    }
    if obs.seen.len() > 11 {
        CAP.violation(run, format!("too-many-requests n={}", obs.seen.len()), || format!("{} requests were sent for one call (more than ten redirects followed); result {}", obs.seen.len(), obs.result), || case.clone());
    }
    if !allow && obs.seen.len() > 1 {
        CAP.violation(run, "redirect-followed-while-disabled", || format!("allow_redirects=false but {} requests were sent: {:?}", obs.seen.len(), obs.seen.iter().map(|s| &s.uri).collect::<Vec<_>>()), || case.clone());
    }
    for (k, s) in obs.seen.iter().enumerate().skip(1) {
        let cls = net::uri_host_class(&s.uri).or_else(|| truth_after(k));
        if let Some(c) = cls {
            let notation = if net::uri_host_class(&s.uri).is_some() { "as-sent" } else { "by-construction" };
            CAP.violation(run, format!("internal-target-reached class={c} via={notation}"), || format!("redirect hop #{k} was sent to {} (class {c}); chain {:?}", s.uri, obs.seen.iter().map(|s| &s.uri).collect::<Vec<_>>()), || case.clone());
        }
        for h in SENSITIVE {
            if s.has_header(h) {
                CAP.violation(run, format!("header-forwarded name={h}"), || format!("redirect hop #{k} to {} carries the {h} header: {:?}", s.uri, s.headers), || case.clone());
            }
        }
    }
}

// ---------------------------------------------------------------------------------------------
// space B alphabet
// ---------------------------------------------------------------------------------------------

#[derive(Clone, Debug)]
struct Ans {
    label: &'static str,
    status: u16,
    location: Option<&'static str>,
    truth: Option<&'static str>,
}

fn reduced_answers(thorough: bool) -> Vec<Ans> {
    let a = |label, status, location, truth| Ans { label, status, location, truth };
    let mut v = vec![
        a("200", 200, None, None),
        a("404", 404, None, None),
        a("302-no-location", 302, None, None),
        a("200+location", 200, Some("http://127.0.0.1/"), None),
        a("301-public", 301, Some("https://other.example/x"), None),
        a("303-public", 303, Some("https://other.example/y"), None),
        a("307-public", 307, Some("https://other.example/z"), None),
        a("308-relative", 308, Some("/moved"), None),
        a("300-relative2", 300, Some("../up?x#y"), None),
        a("304-scheme-relative", 304, Some("//third.example/s"), None),
        a("302-loopback", 302, Some("http://127.0.0.1/"), Some("loopback")),
        a("302-loopback-hex", 302, Some("http://0x7f.1/"), Some("loopback")),
        a("301-private", 301, Some("http://10.0.0.1:8080/x"), Some("private")),
        a("307-metadata", 307, Some("http://169.254.169.254/latest/meta-data/"), Some("link-local")),
        a("302-v6-loopback", 302, Some("http://[::1]/"), Some("loopback")),
        a("302-mapped", 302, Some("http://[::ffff:127.0.0.1]/"), Some("loopback")),
        a("302-ula", 302, Some("http://[fd00::1]/"), Some("unique-local")),
        a("308-localhost", 308, Some("http://localhost:8080/"), Some("localhost")),
        a("302-scheme-relative-internal", 302, Some("//192.168.1.1/"), Some("private")),
        a("302-unspecified", 302, Some("http://0.0.0.0/"), Some("unspecified")),
        a("302-multicast", 302, Some("http://224.0.0.1/"), Some("multicast")),
        a("302-broadcast", 302, Some("http://255.255.255.255/"), Some("broadcast")),
        a("302-documentation", 302, Some("http://192.0.2.1/"), Some("documentation")),
        a("302-shared", 302, Some("http://100.64.0.1/"), Some("shared")),
        a("302-invalid-location", 302, Some("http://[::1"), None),
        a("302-file", 302, Some("file:///etc/passwd"), None),
    ];
    if thorough {
        v.extend([
            a("302-v6-link-local", 302, Some("http://[fe80::1]/"), Some("link-local")),
            a("302-v6-multicast", 302, Some("http://[ff02::1]/"), Some("multicast")),
            a("302-userinfo-internal", 302, Some("http://pub.example@172.16.0.1/"), Some("private")),
            a("302-x-localhost", 302, Some("http://x.LOCALHOST./"), Some("localhost")),
        ]);
    }
    v
}

/// Call `f` on `script` and on every extension of it by up to `remaining` further deviations at later hop positions.
fn extend(script: &mut Vec<(usize, usize)>, remaining: usize, positions: usize, answers: usize, f: &dyn Fn(&[(usize, usize)])) {
    f(script);
    if remaining == 0 {
        return;
    }
    let from = script.last().map(|x| x.0 + 1).unwrap_or(0);
    for p in from..positions {
        for a in 0..answers {
            script.push((p, a));
            extend(script, remaining - 1, positions, answers, f);
            script.pop();
        }
    }
}

fn count_scripts(positions: u64, answers: u64, max_dev: u64) -> u64 {
    // sum over k<=max_dev of C(positions,k) * answers^k
    let mut total = 0u64;
    for k in 0..=max_dev {
        let mut c = 1u64;
        for i in 0..k {
            c = c * (positions - i) / (i + 1);
        }
        total += c * answers.pow(k as u32);
    }
    total
}

// ---------------------------------------------------------------------------------------------

pub fn run(run: &Run, replay: Option<&Value>) {
    run.rule(
        "state = distinct (script, allow_redirects, header set, sync|async) configuration executed on the real redirect follower (runs go to \
         completion); transition = one request served by the scripted transport. non-trivial = runs in which every scripted deviation was \
         actually consumed by the follower (space A/B), and classifier evaluations of addresses inside a named special block (space C).",
    );
    run.assume("the HTTP client below the redirect follower is a scripted transport (the real clients are configured not to follow redirects themselves; that configuration is not exercised here)");
    run.assume("DNS names that resolve to internal addresses are out of scope (documented by the SDK as tracked separately); only the host text of the request is judged");
    run.assume("forbidden blocks are the ones the property names, transcribed from the IANA IPv4/IPv6 special-purpose registries in kit::net::{V4_BLOCKS,V6_BLOCKS}");
    if let Some(c) = replay {
        replay_case(run, c);
        return;
    }
    let thorough = run.tier.is_thorough();

    // ---- determinism + seam liveness ---------------------------------------------------------
    {
        let o1 = run_script(default_answer, true, 0, false);
        let o2 = run_script(default_answer, true, 0, false);
        if o1.seen != o2.seen || o1.result != o2.result {
            kit::ev::machinery("C27: undisturbed script is not deterministic");
        }
        if o1.seen.len() < 2 || !o1.result.starts_with("Err(TooManyRedirects") {
            kit::ev::machinery(format!("C27: undisturbed script should run into the redirect limit, got {} after {} requests", o1.result, o1.seen.len()));
        }
        run.sample(json!({"script":"default (302 to a fresh public URL on every hop)","requests": o1.seen.iter().map(|s| s.uri.clone()).collect::<Vec<_>>(), "result": o1.result}));
        run.evals(2);
    }

    // ---- space A -------------------------------------------------------------------------------
    let alphabet = full_alphabet();
    {
        let mut fams: std::collections::BTreeMap<&str, (u64, u64)> = Default::default();
        for l in &alphabet {
            let e = fams.entry(l.family).or_default();
            e.0 += 1;
            if l.truth.is_some() {
                e.1 += 1;
            }
        }
        run.extra("location_alphabet", json!(fams.iter().map(|(k, v)| json!({"family": k, "values": v.0, "denoting_forbidden_host": v.1})).collect::<Vec<_>>()));
        run.extra("ipv4_boundary_addresses", json!(v4_boundaries().len()));
    }
    let positions: Vec<usize> = (0..=10).collect();
    let cases_a = alphabet.len() as u64 * positions.len() as u64;
    run.space("A: hop position 0..=10 x full Location alphabet (one deviation, allow_redirects=true, sync; async at position 0)", cases_a + alphabet.len() as u64, true);
    let a_followed = AtomicU64::new(0);
    let a_blocked = AtomicU64::new(0);
    let a_forbidden_blocked = AtomicU64::new(0);
    let fam_out: Mutex<std::collections::BTreeMap<String, u64>> = Mutex::new(Default::default());
    par::for_each_index(alphabet.len() as u64, |li| {
        let loc = &alphabet[li as usize];
        let mut local: std::collections::BTreeMap<String, u64> = Default::default();
        for &pos in &positions {
            for is_async in [false, true] {
                if is_async && pos != 0 {
                    continue;
                }
                let text = loc.text.clone();
                let obs = run_script(
                    move |i| {
                        if i < pos {
                            default_answer(i)
                        } else if i == pos {
                            Answer::redirect(302, &text)
                        } else {
                            Answer::ok()
                        }
                    },
                    true,
                    0,
                    is_async,
                );
                run.eval();
                run.states(1);
                run.transitions(obs.seen.len() as u64);
                run.traces(1);
                let case = json!({"space":"A","pos":pos,"location":loc.text,"async":is_async});
                let truth = loc.truth;
                judge(run, "A", true, &obs, &|k| if k == pos + 1 { truth } else { None }, &case);
                if obs.seen.len() > pos {
                    run.nontrivial_n(1);
                }
                let followed = obs.seen.len() > pos + 1;
                if followed {
                    a_followed.fetch_add(1, Ordering::Relaxed);
                } else {
                    a_blocked.fetch_add(1, Ordering::Relaxed);
                    if truth.is_some() {
                        a_forbidden_blocked.fetch_add(1, Ordering::Relaxed);
                    }
                }
                if pos == 0 && !is_async {
                    *local.entry(format!("A:{}:{}", loc.family, if followed { "followed".to_string() } else { obs.result.clone() })).or_default() += 1;
                }
            }
        }
        let mut g = fam_out.lock().unwrap();
        for (k, v) in local {
            *g.entry(k).or_default() += v;
        }
    });
    for (k, v) in fam_out.lock().unwrap().iter() {
        run.outcome_n(k.clone(), *v);
    }
    run.extra("spaceA", json!({"followed": a_followed.load(Ordering::Relaxed), "not_followed": a_blocked.load(Ordering::Relaxed), "forbidden_by_construction_and_not_followed": a_forbidden_blocked.load(Ordering::Relaxed)}));
    if run.violation_count() == 0 && (a_followed.load(Ordering::Relaxed) == 0 || a_forbidden_blocked.load(Ordering::Relaxed) == 0) {
        kit::ev::machinery("C27: space A is vacuous (nothing followed or nothing blocked)");
    }
    for probe in ["http://0x7f.1/x", "http://[::ffff:a9fe:a9fe]/x", "http://%EF%BC%91%EF%BC%92%EF%BC%97.0.0.1/", "http://100.128.0.0/x"] {
        let t = probe.to_string();
        let o = run_script(move |i| if i == 0 { Answer::redirect(302, &t) } else { Answer::ok() }, true, 0, false);
        run.sample(json!({"space":"A","pos":0,"location":probe,"requests": o.seen.iter().map(|s| s.uri.clone()).collect::<Vec<_>>(), "result": o.result}));
    }

    // ---- space B -------------------------------------------------------------------------------
    let answers = reduced_answers(thorough);
    let max_dev = run.tier.pick(2, 3);
    let npos = 12usize;
    let n_scripts = count_scripts(npos as u64, answers.len() as u64, max_dev as u64);
    // work items: the empty script, and every single first deviation (its extensions are enumerated inside the worker)
    let mut prefixes: Vec<Vec<(usize, usize)>> = vec![vec![]];
    for p in 0..npos {
        for a in 0..answers.len() {
            prefixes.push(vec![(p, a)]);
        }
    }
    let executed_scripts = AtomicU64::new(0);
    let max_requests = AtomicU64::new(0);
    let configs: Vec<(bool, usize, bool)> = vec![(true, 0, false), (false, 0, false), (true, 1, false), (true, 0, true), (false, 1, true)];
    run.space(
        &format!("B: all scripts with <= {max_dev} deviations over 12 hop positions x {} answers, x {{allow=true/hset0/sync, allow=false/hset0/sync, allow=true/hset1/sync, allow=true/hset0/async, allow=false/hset1/async}}", answers.len()),
        n_scripts * configs.len() as u64,
        true,
    );
    run.extra("spaceB_answers", json!(answers.iter().map(|a| a.label).collect::<Vec<_>>()));
    let b_out: Mutex<std::collections::BTreeMap<String, u64>> = Mutex::new(Default::default());
    let answers_ref = &answers;
    let n_answers = answers.len();
    let run_one = |script: &[(usize, usize)], local: &mut std::collections::BTreeMap<String, u64>| {
        executed_scripts.fetch_add(1, Ordering::Relaxed);
        for &(allow, hset, is_async) in &configs {
            let sc: Vec<(usize, Answer, Option<&'static str>)> = script
                .iter()
                .map(|(p, a)| {
                    let an = &answers_ref[*a];
                    (*p, Answer { status: an.status, location: an.location.map(|l| l.as_bytes().to_vec()), body: vec![] }, an.truth)
                })
                .collect();
            let sc2 = sc.clone();
            let obs = run_script(
                move |i| match sc2.iter().find(|d| d.0 == i) {
                    Some(d) => d.1.clone(),
                    None => default_answer(i),
                },
                allow,
                hset,
                is_async,
            );
            run.eval();
            run.states(1);
            run.transitions(obs.seen.len() as u64);
            run.traces(1);
            let case = json!({"space":"B","script": script.iter().map(|(p,a)| json!({"hop":p,"answer":answers_ref[*a].label})).collect::<Vec<_>>(),
                              "allow_redirects":allow,"header_set":hset,"async":is_async});
            judge(run, "B", allow, &obs, &|k| sc.iter().find(|d| d.0 + 1 == k).and_then(|d| d.2), &case);
            let consumed = script.iter().all(|(p, _)| *p < obs.seen.len());
            if consumed {
                run.nontrivial_n(1);
            }
            max_requests.fetch_max(obs.seen.len() as u64, Ordering::Relaxed);
            *local.entry(format!("B:allow={allow}:{}", obs.result)).or_default() += 1;
        }
    };
    par::for_each(&prefixes, |prefix| {
        let local = std::cell::RefCell::new(std::collections::BTreeMap::<String, u64>::new());
        let mut script = prefix.clone();
        let remaining = if prefix.is_empty() { 0 } else { max_dev - 1 };
        extend(&mut script, remaining, npos, n_answers, &|s| run_one(s, &mut local.borrow_mut()));
        let mut g = b_out.lock().unwrap();
        for (k, v) in local.into_inner() {
            *g.entry(k).or_default() += v;
        }
    });
    if executed_scripts.load(Ordering::Relaxed) != n_scripts {
        kit::ev::machinery(format!("C27: enumerated {} scripts, expected {n_scripts}", executed_scripts.load(Ordering::Relaxed)));
    }
    for (k, v) in b_out.lock().unwrap().iter() {
        run.outcome_n(k.clone(), *v);
    }
    {
        let g = b_out.lock().unwrap();
        let has = |needle: &str| g.keys().any(|k| k.contains(needle));
        run.extra("spaceB_max_requests_in_one_call", json!(max_requests.load(Ordering::Relaxed)));
        if run.violation_count() == 0 && !(max_requests.load(Ordering::Relaxed) >= 11 && has("TooManyRedirects") && has("Ok(200)") && has("RedirectTargetDisallowed") && has("RedirectDisallowed")) {
            kit::ev::machinery(format!("C27: space B did not reach all expected outcome classes: {:?}", g.keys().collect::<Vec<_>>()));
        }
    }

    // ---- space D: chains that START at an internal / special host -------------------------------
    internal_start_space(run);

    // ---- space C: classifier sweep -------------------------------------------------------------
    classifier_sweep(run, thorough);
    CAP.report(run);
}

/// (authority host text, host with a different port, truth class) of the start hosts of space D.
fn d_starts() -> Vec<(&'static str, Option<&'static str>)> {
    vec![
        ("127.0.0.1", Some("loopback")),
        ("127.8.9.10", Some("loopback")),
        ("10.0.0.1", Some("private")),
        ("172.16.0.1", Some("private")),
        ("192.168.1.1", Some("private")),
        ("169.254.169.254", Some("link-local")),
        ("100.64.0.1", Some("shared")),
        ("0.0.0.0", Some("unspecified")),
        ("192.0.2.1", Some("documentation")),
        ("224.0.0.1", Some("multicast")),
        ("255.255.255.255", Some("broadcast")),
        ("localhost", Some("localhost")),
        ("LOCALHOST", Some("localhost")),
        ("x.localhost", Some("localhost")),
        ("localhost.", Some("localhost")),
        ("[::1]", Some("loopback")),
        ("[::]", Some("unspecified")),
        ("[::ffff:127.0.0.1]", Some("loopback")),
        ("[::ffff:a9fe:a9fe]", Some("link-local")),
        ("[fd00::1]", Some("unique-local")),
        ("[fe80::1]", Some("link-local")),
        ("[ff02::1]", Some("multicast")),
        ("2130706433", Some("loopback")),
        ("0x7f.1", Some("loopback")),
        ("pub.example", None),
        ("93.184.216.34", None),
    ]
}

/// Location kinds of space D; `{H}` is the start host text.
fn d_locations() -> Vec<(&'static str, &'static str, bool)> {
    // (label, template, stays on the start host)
    vec![
        ("relative-path", "/r", true),
        ("relative-segment", "r2/x?y#z", true),
        ("relative-query", "?q=1", true),
        ("same-host-other-port", "http://{H}:9999/x", true),
        ("same-host-other-scheme", "https://{H}/x", true),
        ("same-host-userinfo", "http://u:p@{H}:8080/x", true),
        ("scheme-relative-same-host", "//{H}:8080/x", true),
        ("other-internal-v4", "http://10.9.9.9/x", false),
        ("other-internal-loopback", "http://127.0.0.2:8080/x", false),
        ("other-internal-v6", "http://[::1]:8080/x", false),
        ("other-internal-name", "http://localhost:8080/x", false),
        ("public", "http://pub2.example/x", false),
    ]
}

/// Space D: the first request is outside the property (a directly named internal host is fetched, documented), but no
/// request AFTER it may go to a forbidden host - also not to the one the chain started at. For every start host of the
/// internal/special alphabet (+ public controls) x every Location kind x every hop position p in 0..=10: hops before p
/// are answered with a Location that stays on the current host (relative path), hop p with the Location, then 200.
fn internal_start_space(run: &Run) {
    let starts = d_starts();
    let locs = d_locations();
    let positions: Vec<usize> = (0..=10).collect();
    let mut cases: Vec<(usize, usize, usize, bool)> = vec![];
    for s in 0..starts.len() {
        for l in 0..locs.len() {
            for &p in &positions {
                cases.push((s, l, p, false));
                if p <= 1 {
                    cases.push((s, l, p, true));
                }
            }
        }
    }
    run.space("D: start host (24 internal/special spellings + 2 public controls) x 12 Location kinds (7 staying on the start host) x hop position 0..=10 (hops before it stay on the current host), sync; async at positions 0,1", cases.len() as u64, true);
    let followed = AtomicU64::new(0);
    let blocked = AtomicU64::new(0);
    par::for_each(&cases, |(s, l, p, is_async)| {
        let (host, truth) = starts[*s];
        let (label, tmpl, same) = locs[*l];
        let start = format!("http://{host}:8080/a/b?c=d");
        let loc = tmpl.replace("{H}", host);
        let (pos, loc2) = (*p, loc.clone());
        let obs = run_script_from(
            &start,
            move |i| {
                if i < pos {
                    Answer::redirect(302, &format!("/stay{i}"))
                } else if i == pos {
                    Answer::redirect(307, &loc2)
                } else {
                    Answer::ok()
                }
            },
            true,
            0,
            *is_async,
        );
        run.eval();
        run.states(1);
        run.transitions(obs.seen.len() as u64);
        run.traces(1);
        let case = json!({"space":"D","start":start,"location":loc,"pos":pos,"async":is_async});
        // by construction: every hop before `pos` stays on the start host, hop `pos` does when the kind says so
        judge(run, "D", true, &obs, &|k| if k <= pos || (k == pos + 1 && same) { truth } else { None }, &case);
        if obs.seen.len() > 1 {
            followed.fetch_add(1, Ordering::Relaxed);
            run.nontrivial_n(1);
        } else {
            blocked.fetch_add(1, Ordering::Relaxed);
            if truth.is_some() {
                run.nontrivial_n(1);
            }
        }
        if pos == 0 && !*is_async {
            run.outcome(format!("D:{}:{label}:{}", if truth.is_some() { "internal-start" } else { "public-start" }, if obs.seen.len() > 1 { "followed".to_string() } else { obs.result.clone() }));
        }
    });
    run.extra("spaceD", json!({"calls_with_a_followed_hop": followed.load(Ordering::Relaxed), "calls_stopped_at_the_first_hop": blocked.load(Ordering::Relaxed)}));
    if run.violation_count() == 0 && (followed.load(Ordering::Relaxed) == 0 || blocked.load(Ordering::Relaxed) == 0) {
        kit::ev::machinery("C27: space D is vacuous");
    }
    let o = run_script_from("http://127.0.0.1:8080/a", |i| if i == 0 { Answer::redirect(302, "/r") } else { Answer::ok() }, true, 0, false);
    run.sample(json!({"space":"D","start":"http://127.0.0.1:8080/a","location":"/r","pos":0,"requests": o.seen.iter().map(|s| s.uri.clone()).collect::<Vec<_>>(), "result": o.result}));
}

fn classify(uri_text: &str) -> Option<bool> {
    uri_text.parse::<Uri>().ok().map(|u| hooks::redirect_target_is_non_global(&u))
}

fn classifier_sweep(run: &Run, thorough: bool) {
    // IPv4: which low-16 words are visited for a given high word
    let full16: Vec<u32> = vec![0xC000, 0xC633, 0xCB00]; // 192.0/16, 198.51/16, 203.0/16 contain the /24 documentation blocks
    let lows: [u32; 6] = [0x0000, 0x0001, 0x00ff, 0x0100, 0xfffe, 0xffff];
    let stats = Mutex::new([0u64; 4]); // forbidden&blocked, forbidden&passed, other&blocked, other&passed
    let n_v4: u64 = if thorough { 1u64 << 32 } else { 65536 * lows.len() as u64 + full16.len() as u64 * 65536 };
    run.space(
        if thorough { "C: classifier sweep over ALL 2^32 IPv4 addresses (dotted-decimal URI through host_is_non_global)" } else { "C: classifier sweep over every /16 x 6 low words + 3 full /16 (IPv4, dotted-decimal URI through host_is_non_global)" },
        n_v4,
        true,
    );
    let check = |text: &str, truth: Option<&'static str>, local: &mut [u64; 4], fam: &str| {
        let Some(blocked) = classify(text) else {
            kit::ev::machinery(format!("C27: sweep URI {text} does not parse"));
        };
        let idx = match (truth.is_some(), blocked) {
            (true, true) => 0,
            (true, false) => 1,
            (false, true) => 2,
            (false, false) => 3,
        };
        local[idx] += 1;
        if idx == 1 {
            CAP.violation(run, format!("classifier-passes-internal class={} family={fam}", truth.unwrap_or("")), || format!("{text} is in a block the property forbids ({}) but the redirect-target classifier lets it through", truth.unwrap_or("")), || json!({"space":"C","uri":text}));
        }
    };
    par::for_each_index(65536, |hi| {
        let hi = hi as u32;
        let mut local = [0u64; 4];
        let mut buf = String::with_capacity(32);
        let mut one = |a: u32, local: &mut [u64; 4]| {
            use std::fmt::Write;
            buf.clear();
            let b = a.to_be_bytes();
            let _ = write!(buf, "http://{}.{}.{}.{}/", b[0], b[1], b[2], b[3]);
            check(&buf, net::v4_class(a), local, "ipv4");
        };
        if thorough || full16.contains(&hi) {
            for lo in 0..65536u32 {
                one(hi << 16 | lo, &mut local);
            }
        } else {
            for lo in lows {
                one(hi << 16 | lo, &mut local);
            }
        }
        let n: u64 = local.iter().sum();
        run.evals(n);
        run.nontrivial_n(local[0] + local[1]);
        let mut g = stats.lock().unwrap();
        for i in 0..4 {
            g[i] += local[i];
        }
    });
    {
        let g = stats.lock().unwrap();
        run.outcome_n("C:ipv4:named-block&classified-non-global", g[0]);
        run.outcome_n("C:ipv4:named-block&PASSED", g[1]);
        run.outcome_n("C:ipv4:unnamed&classified-non-global(not demanded)", g[2]);
        run.outcome_n("C:ipv4:unnamed&passed", g[3]);
        if run.violation_count() == 0 && (g[0] == 0 || g[3] == 0) {
            kit::ev::machinery("C27: IPv4 sweep is vacuous");
        }
    }

    // mapped spellings: every /16 (quick: 6 low words + 3 full /16; thorough: every /24 x 4 low bytes)
    let stats_m = Mutex::new([0u64; 4]);
    let n_m: u64 = if thorough { (1u64 << 24) * 4 } else { n_v4 };
    run.space("C: IPv4-mapped IPv6 spellings [::ffff:h:l] of the IPv4 sweep set (thorough: every /24 x low byte in {0,1,254,255})", n_m, true);
    par::for_each_index(65536, |hi| {
        let hi = hi as u32;
        let mut local = [0u64; 4];
        let mut buf = String::with_capacity(40);
        let mut one = |a: u32, local: &mut [u64; 4]| {
            use std::fmt::Write;
            buf.clear();
            let _ = write!(buf, "http://[::ffff:{:x}:{:x}]/", a >> 16, a & 0xffff);
            check(&buf, net::v6_class(net::V6_MAPPED_PREFIX | a as u128), local, "ipv4-mapped");
        };
        if thorough {
            for mid in 0..256u32 {
                for lo in [0u32, 1, 254, 255] {
                    one(hi << 16 | mid << 8 | lo, &mut local);
                }
            }
        } else if full16.contains(&hi) {
            for lo in 0..65536u32 {
                one(hi << 16 | lo, &mut local);
            }
        } else {
            for lo in lows {
                one(hi << 16 | lo, &mut local);
            }
        }
        let n: u64 = local.iter().sum();
        run.evals(n);
        run.nontrivial_n(local[0] + local[1]);
        let mut g = stats_m.lock().unwrap();
        for i in 0..4 {
            g[i] += local[i];
        }
    });
    {
        let g = stats_m.lock().unwrap();
        run.outcome_n("C:mapped:named-block&classified-non-global", g[0]);
        run.outcome_n("C:mapped:named-block&PASSED", g[1]);
        run.outcome_n("C:mapped:unnamed&classified-non-global(not demanded)", g[2]);
        run.outcome_n("C:mapped:unnamed&passed", g[3]);
    }

    // IPv6: all 2^16 leading segments x tails
    let stats6 = Mutex::new([0u64; 4]);
    let tails: [u128; 3] = [0, 1, (1u128 << 112) - 1];
    run.space("C: all 2^16 leading IPv6 segments x tails {::, ::1, all-ones}", 65536 * 3, true);
    par::for_each_index(65536, |seg| {
        let mut local = [0u64; 4];
        for t in tails {
            let a: u128 = (seg as u128) << 112 | t;
            if a >> 32 == net::V6_MAPPED_PREFIX >> 32 {
                continue;
            }
            let ip = std::net::Ipv6Addr::from(a);
            let text = format!("http://[{ip}]/");
            check(&text, net::v6_class(a), &mut local, "ipv6");
        }
        let n: u64 = local.iter().sum();
        run.evals(n);
        run.nontrivial_n(local[0] + local[1]);
        let mut g = stats6.lock().unwrap();
        for i in 0..4 {
            g[i] += local[i];
        }
    });
    {
        let g = stats6.lock().unwrap();
        run.outcome_n("C:ipv6:named-block&classified-non-global", g[0]);
        run.outcome_n("C:ipv6:named-block&PASSED", g[1]);
        run.outcome_n("C:ipv6:unnamed&classified-non-global(not demanded)", g[2]);
        run.outcome_n("C:ipv6:unnamed&passed", g[3]);
        if run.violation_count() == 0 && (g[0] == 0 || g[3] == 0) {
            kit::ev::machinery("C27: IPv6 sweep is vacuous");
        }
    }
    run.sample(json!({"space":"C","uri":"http://100.127.255.255/","named_block": net::v4_class(0x647f_ffff), "classified_non_global": classify("http://100.127.255.255/")}));
    run.sample(json!({"space":"C","uri":"http://100.128.0.0/","named_block": net::v4_class(0x6480_0000), "classified_non_global": classify("http://100.128.0.0/")}));
    run.sample(json!({"space":"C","uri":"http://[fdff:ffff::1]/","named_block": net::host_class("[fdff:ffff::1]"), "classified_non_global": classify("http://[fdff:ffff::1]/")}));
}

fn replay_case(run: &Run, c: &Value) {
    run.eval();
    run.states(1);
    run.transitions(1);
    match c["space"].as_str() {
        Some("A") => {
            let pos = c["pos"].as_u64().unwrap_or(0) as usize;
            let text = c["location"].as_str().unwrap_or("").to_string();
            let truth = full_alphabet().into_iter().find(|l| l.text == text).and_then(|l| l.truth);
            let t2 = text.clone();
            let obs = run_script(
                move |i| if i < pos { default_answer(i) } else if i == pos { Answer::redirect(302, &t2) } else { Answer::ok() },
                true,
                0,
                c["async"].as_bool().unwrap_or(false),
            );
            println!("replay A pos={pos} location={text} (denotes {truth:?}): requests {:?} result {}", obs.seen.iter().map(|s| &s.uri).collect::<Vec<_>>(), obs.result);
            judge(run, "A", true, &obs, &|k| if k == pos + 1 { truth } else { None }, c);
        }
        Some("B") => {
            let answers = reduced_answers(true);
            let sc: Vec<(usize, Answer, Option<&'static str>)> = c["script"]
                .as_array()
                .cloned()
                .unwrap_or_default()
                .iter()
                .map(|d| {
                    let an = answers.iter().find(|a| Some(a.label) == d["answer"].as_str()).unwrap_or_else(|| kit::ev::machinery("replay: unknown answer label"));
                    (d["hop"].as_u64().unwrap_or(0) as usize, Answer { status: an.status, location: an.location.map(|l| l.as_bytes().to_vec()), body: vec![] }, an.truth)
                })
                .collect();
            let allow = c["allow_redirects"].as_bool().unwrap_or(true);
            let sc2 = sc.clone();
            let obs = run_script(
                move |i| match sc2.iter().find(|d| d.0 == i) {
                    Some(d) => d.1.clone(),
                    None => default_answer(i),
                },
                allow,
                c["header_set"].as_u64().unwrap_or(0) as usize,
                c["async"].as_bool().unwrap_or(false),
            );
            println!("replay B {}: requests {:?} result {}", c["script"], obs.seen.iter().map(|s| (&s.uri, &s.headers)).collect::<Vec<_>>(), obs.result);
            judge(run, "B", allow, &obs, &|k| sc.iter().find(|d| d.0 + 1 == k).and_then(|d| d.2), c);
        }
        Some("D") => {
            let start = c["start"].as_str().unwrap_or("").to_string();
            let loc = c["location"].as_str().unwrap_or("").to_string();
            let pos = c["pos"].as_u64().unwrap_or(0) as usize;
            let l2 = loc.clone();
            let obs = run_script_from(
                &start,
                move |i| if i < pos { Answer::redirect(302, &format!("/stay{i}")) } else if i == pos { Answer::redirect(307, &l2) } else { Answer::ok() },
                true,
                0,
                c["async"].as_bool().unwrap_or(false),
            );
            println!("replay D start={start} location={loc} pos={pos}: requests {:?} result {}", obs.seen.iter().map(|s| &s.uri).collect::<Vec<_>>(), obs.result);
            judge(run, "D", true, &obs, &|_| None, c);
        }
        Some("C") => {
            let u = c["uri"].as_str().unwrap_or("");
            let truth = net::uri_host_class(u);
            let got = classify(u);
            println!("replay C {u}: named block {truth:?}, classified non-global: {got:?}");
            if truth.is_some() && got == Some(false) {
                CAP.violation(run, "classifier-passes-internal (replay)", || format!("{u} passes"), || c.clone());
            }
        }
        _ => kit::ev::machinery("replay: unknown space"),
    }
}

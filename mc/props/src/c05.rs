//! C05 — signer trust decisions follow the configured trust policy.
//! S-inp over configurations: generated hierarchy shape x end-entity EKU x supplied chain variant (signed into a
//! PNG by the kit's direct-COSE signer) x trust settings (system anchors, user anchors, allow list by PEM / hash,
//! trust_config EKUs, verify_trust) read through `Reader`; plus the public `CertificateTrustPolicy` driven directly
//! for the trust-anchor-only mode, which no setting reaches.
//! Ground truth is by construction (the kit knows who issued what). The property is one-directional
//! ("trusted only if ..., otherwise untrusted"); "policy satisfied => Trusted" is demanded only for the clean cases
//! (strictly conforming hierarchy, ordered complete chain) and left open elsewhere.
//!
//! Mutants caught (tools/mutant_run.sh E <patch> C05 quick):
//!   mutants/C05-eku-first-wins.diff      (has_allowed_eku accepts the first "other" EKU)
//!   mutants/C05-anchors-only-ignored.diff (trust-anchor-only mode still consults user anchors)
//!   /tmp/seed-C05/OUT/patch.diff          (independently seeded: system-anchor store loses the signing time /
//!                                          NO_CHECK_TIME; caught by the validity-window x anchor-kind dimension, 38 "validity ..." keys)

use c2pa::crypto::cose::{CertificateTrustPolicy, TrustAnchorType};
use kit::{
    par,
    pki::{self, Cert, CertSpec, Hierarchy, KeyKind, KitSigner, Ku, Obs},
    Run,
};
use serde_json::{json, Value};

// ---------------------------------------------------------------------------------------------------------
// factors
// ---------------------------------------------------------------------------------------------------------
const SHAPES: &[&str] = &["d0", "d1", "d2", "d3", "d2-inter-not-ca", "d2-inter-no-keyCertSign", "d3-pathlen-exceeded", "d2-inter-expired"];
const EKUS: &[&str] = &["email", "docsign", "custom", "serverAuth", "any", "absent"];
const ANCHORS: &[&str] = &["none", "root-sys", "root-user", "issuer-sys", "unrelated-sys", "lookalike-sys", "unrelated-sys+root-user", "root-sys+unrelated-user"];
const ALLOW: &[&str] = &["none", "ee-pem", "ee-hash", "other-pem"];

fn chains_for(shape: &str) -> &'static [&'static str] {
    match shape {
        "d0" => &["leaf-only"],
        "d1" => &["leaf-only", "complete+root"],
        "d2" => &["complete", "complete+root", "leaf-only", "foreign-issuer"],
        "d3" => &["complete", "complete+root", "leaf-only", "missing-upper", "missing-lower", "reordered", "foreign-issuer"],
        _ => &["complete"],
    }
}

fn depth_of(shape: &str) -> usize {
    shape[1..2].parse().unwrap_or(1)
}

/// Everything generated for one (shape, key kind, EKU).
struct World {
    h: Hierarchy,
    /// certificate with the same subject name as the end-entity's issuer but another key, from an unrelated root
    foreign_issuer: Option<Cert>,
    unrelated_root: Cert,
    /// self-signed, same subject name as the real root, different key
    lookalike_root: Option<Cert>,
    other_ee: Cert,
}

fn ee_spec(eku: &str, tag: &str) -> CertSpec {
    let mut s = CertSpec::ee(&format!("{tag} signer"));
    s.eku = match eku {
        "email" => Some(vec![pki::EKU_EMAIL.into()]),
        "docsign" => Some(vec![pki::EKU_DOCSIGN.into()]),
        "custom" => Some(vec![pki::EKU_CUSTOM.into()]),
        "serverAuth" => Some(vec![pki::EKU_SERVER.into()]),
        "any" => Some(vec![pki::EKU_ANY.into()]),
        _ => None,
    };
    s
}

fn world(shape: &str, kind: KeyKind, eku: &str) -> World {
    let tag = format!("c05-{shape}");
    let depth = depth_of(shape);
    let now = pki::now();
    let slot = format!("c05-{}", kind.name());
    // build by hand so that single intermediates can be made defective
    let ee_key = pki::gen_key(kind, &format!("{slot}-ee"));
    let h = if depth == 0 {
        Hierarchy { root: None, inters: vec![], ee: pki::issue(&ee_spec(eku, &tag), &ee_key, None) }
    } else {
        let root = pki::issue(&CertSpec::ca(&format!("{tag} Root CA"), None), &pki::gen_key(kind, &format!("{slot}-root")), None);
        let mut inters: Vec<Cert> = vec![];
        for i in 1..depth {
            let mut s = CertSpec::ca(&format!("{tag} Intermediate CA {i}"), None);
            let is_issuer = i == depth - 1;
            match shape {
                "d2-inter-not-ca" => s.basic = Some((false, None)),
                "d2-inter-no-keyCertSign" => s.key_usage = Some(vec![Ku::DigitalSignature, Ku::CrlSign]),
                "d3-pathlen-exceeded" if i == 1 => s.basic = Some((true, Some(0))), // yet it issues another CA below
                "d2-inter-expired" if is_issuer => {
                    s.not_before = now - 400 * pki::DAY;
                    s.not_after = now - 30 * pki::DAY;
                }
                _ => {}
            }
            let parent = inters.last().unwrap_or(&root).clone();
            inters.push(pki::issue(&s, &pki::gen_key(kind, &format!("{slot}-int{i}")), Some(&parent)));
        }
        let parent = inters.last().unwrap_or(&root).clone();
        let ee = pki::issue(&ee_spec(eku, &tag), &ee_key, Some(&parent));
        Hierarchy { root: Some(root), inters, ee }
    };
    let unrelated_root = pki::issue(&CertSpec::ca(&format!("{tag} Unrelated Root"), None), &pki::gen_key(kind, &format!("{slot}-unrelated")), None);
    let foreign_issuer = h.inters.last().map(|i| {
        let mut s = CertSpec::ca(&i.spec.cn, None);
        s.org = i.spec.org.clone();
        pki::issue(&s, &pki::gen_key(kind, &format!("{slot}-foreign")), Some(&unrelated_root))
    });
    let lookalike_root = h.root.as_ref().map(|r| {
        let mut s = CertSpec::ca(&r.spec.cn, None);
        s.org = r.spec.org.clone();
        pki::issue(&s, &pki::gen_key(kind, &format!("{slot}-lookalike")), None)
    });
    let other_ee = pki::issue(&CertSpec::ee(&format!("{tag} other signer")), &pki::gen_key(kind, &format!("{slot}-other")), Some(&unrelated_root));
    World { h, foreign_issuer, unrelated_root, lookalike_root, other_ee }
}

/// certificate identities used by the reference model
#[derive(Clone, Copy, PartialEq, Eq, Debug)]
enum Id {
    Ee,
    /// intermediate i (1 = issued by the root)
    Inter(usize),
    Root,
    ForeignIssuer,
    Unrelated,
    Lookalike,
}

impl World {
    fn cert(&self, id: Id) -> Option<&Cert> {
        match id {
            Id::Ee => Some(&self.h.ee),
            Id::Inter(i) => self.h.inters.get(i - 1),
            Id::Root => self.h.root.as_ref(),
            Id::ForeignIssuer => self.foreign_issuer.as_ref(),
            Id::Unrelated => Some(&self.unrelated_root),
            Id::Lookalike => self.lookalike_root.as_ref(),
        }
    }
    /// the true issuer of a hierarchy member (by key, which is what chains are made of)
    fn issuer_of(&self, id: Id) -> Option<Id> {
        let n = self.h.inters.len();
        match id {
            Id::Ee if self.h.root.is_none() => None,
            Id::Ee if n == 0 => Some(Id::Root),
            Id::Ee => Some(Id::Inter(n)),
            Id::Inter(1) => Some(Id::Root),
            Id::Inter(i) => Some(Id::Inter(i - 1)),
            _ => None,
        }
    }
    /// x5chain ids after the end-entity certificate
    fn supplied(&self, chain: &str) -> Vec<Id> {
        let n = self.h.inters.len();
        let bottom_up: Vec<Id> = (1..=n).rev().map(Id::Inter).collect();
        match chain {
            "leaf-only" => vec![],
            "complete" => bottom_up,
            "complete+root" => {
                let mut v = bottom_up;
                v.push(Id::Root);
                v
            }
            "missing-upper" => bottom_up.into_iter().filter(|i| *i != Id::Inter(1)).collect(),
            "missing-lower" => bottom_up.into_iter().filter(|i| *i != Id::Inter(n)).collect(),
            "reordered" => (1..=n).map(Id::Inter).collect(),
            "foreign-issuer" => bottom_up.into_iter().map(|i| if i == Id::Inter(n) { Id::ForeignIssuer } else { i }).collect(),
            other => kit::ev::machinery(format!("C05: unknown chain variant {other}")),
        }
    }
    fn x5chain(&self, chain: &str) -> Vec<Vec<u8>> {
        let mut v = vec![self.h.ee.der.clone()];
        for id in self.supplied(chain) {
            v.push(self.cert(id).unwrap_or_else(|| kit::ev::machinery("C05: chain refers to a missing certificate")).der.clone());
        }
        v
    }
}

/// (system anchors, user anchors)
fn anchor_sets(w: &World, a: &str) -> Option<(Vec<Id>, Vec<Id>)> {
    let issuer = w.issuer_of(Id::Ee);
    let r = match a {
        "none" => (vec![], vec![]),
        "root-sys" => (vec![Id::Root], vec![]),
        "root-user" => (vec![], vec![Id::Root]),
        "issuer-sys" => (vec![issuer?], vec![]),
        "unrelated-sys" => (vec![Id::Unrelated], vec![]),
        "lookalike-sys" => (vec![Id::Lookalike], vec![]),
        "unrelated-sys+root-user" => (vec![Id::Unrelated], vec![Id::Root]),
        "root-sys+unrelated-user" => (vec![Id::Root], vec![Id::Unrelated]),
        other => kit::ev::machinery(format!("C05: unknown anchors {other}")),
    };
    // every named certificate must exist for this shape
    if r.0.iter().chain(r.1.iter()).all(|id| w.cert(*id).is_some()) {
        Some(r)
    } else {
        None
    }
}

/// Reference model: does the end-entity certificate chain, through supplied certificates only, to one of `anchors`?
/// None = the hierarchy has a defect whose effect on a path the property leaves open (expired intermediate).
fn links(w: &World, shape: &str, supplied: &[Id], anchors: &[Id]) -> Option<bool> {
    let defective_ca = |id: Id| -> Option<bool> {
        // Some(true): certificate cannot act as an issuer at all; None: open
        match (shape, id) {
            ("d2-inter-not-ca", Id::Inter(1)) | ("d2-inter-no-keyCertSign", Id::Inter(1)) => Some(true),
            // intermediate 1 has pathLenConstraint 0 but intermediate 2 (a CA) follows it
            ("d3-pathlen-exceeded", Id::Inter(1)) => Some(true),
            ("d2-inter-expired", Id::Inter(1)) => None,
            _ => Some(false),
        }
    };
    let mut cur = Id::Ee;
    let mut open = false;
    for _ in 0..6 {
        let Some(iss) = w.issuer_of(cur) else { return Some(false) };
        match defective_ca(iss) {
            Some(true) => return Some(false),
            None => open = true,
            Some(false) => {}
        }
        if anchors.contains(&iss) {
            return if open { None } else { Some(true) };
        }
        if supplied.contains(&iss) {
            cur = iss;
        } else {
            return Some(false);
        }
    }
    Some(false)
}

fn eku_accepted(eku: &str, trust_config_custom: bool) -> bool {
    match eku {
        "email" | "docsign" => true,
        "custom" => trust_config_custom,
        _ => false,
    }
}

#[derive(Clone, Debug)]
struct Cfg {
    anchors: &'static str,
    allow: &'static str,
    tc: bool,
    vt: bool,
}

struct Truth {
    /// policy condition of the property: allow-listed, or linked to an admitted anchor with an accepted EKU
    cond: Option<bool>,
    /// "cond => Trusted" is demanded only here
    clean: bool,
    allow_hit: bool,
    linked: Option<bool>,
    eku_ok: bool,
}

fn truth(w: &World, shape: &str, eku: &str, chain: &str, cfg: &Cfg) -> Option<Truth> {
    let (sys, user) = anchor_sets(w, cfg.anchors)?;
    let supplied = w.supplied(chain);
    let all: Vec<Id> = sys.iter().chain(user.iter()).copied().collect();
    let linked = links(w, shape, &supplied, &all);
    let allow_hit = matches!(cfg.allow, "ee-pem" | "ee-hash");
    let eku_ok = eku_accepted(eku, cfg.tc);
    let cond = if allow_hit {
        Some(true)
    } else {
        match linked {
            Some(l) => Some(l && eku_ok),
            None => {
                if eku_ok {
                    None
                } else {
                    Some(false)
                }
            }
        }
    };
    // clean: strictly conforming hierarchy, chain supplied in order without extras, accepted EKU, not self-signed
    let clean = matches!(shape, "d1" | "d2" | "d3") && matches!(chain, "complete" | "leaf-only") && eku_ok;
    Some(Truth { cond, clean, allow_hit, linked, eku_ok })
}

fn reader_ctx(w: &World, cfg: &Cfg) -> c2pa::Context {
    let (sys, user) = anchor_sets(w, cfg.anchors).unwrap_or_default();
    let pem = |ids: &[Id]| ids.iter().filter_map(|i| w.cert(*i)).map(|c| c.pem()).collect::<String>();
    let mut trust = serde_json::Map::new();
    if !sys.is_empty() {
        trust.insert("trust_anchors".into(), json!(pem(&sys)));
    }
    if !user.is_empty() {
        trust.insert("user_anchors".into(), json!(pem(&user)));
    }
    match cfg.allow {
        "ee-pem" => trust.insert("allowed_list".into(), json!(w.h.ee.pem())),
        "ee-hash" => trust.insert("allowed_list".into(), json!(format!("{}\n", w.h.ee.allow_hash()))),
        "other-pem" => trust.insert("allowed_list".into(), json!(w.other_ee.pem())),
        _ => None,
    };
    if cfg.tc {
        trust.insert("trust_config".into(), json!(pki::EKU_CUSTOM));
    }
    pki::read_ctx(Value::Object(trust), json!({"verify_trust": cfg.vt}))
}

fn case_json(shape: &str, kind: KeyKind, eku: &str, chain: &str, cfg: &Cfg) -> Value {
    json!({"seam":"reader","shape":shape,"kind":kind.name(),"eku":eku,"chain":chain,"anchors":cfg.anchors,"allow":cfg.allow,"trust_config_custom":cfg.tc,"verify_trust":cfg.vt})
}

fn judge(run: &Run, shape: &str, kind: KeyKind, eku: &str, chain: &str, cfg: &Cfg, t: &Truth, o: &Result<Obs, String>) {
    run.eval();
    let case = case_json(shape, kind, eku, chain, cfg);
    let tail = format!("shape={shape} chain={chain} eku={eku} anchors={} allow={} tc={} kind={}", cfg.anchors, cfg.allow, cfg.tc, kind.name());
    let o = match o {
        Err(p) => {
            run.outcome("panic");
            run.violation(format!("panic {tail}"), p.clone(), case);
            return;
        }
        Ok(o) => o,
    };
    if cfg.vt && (cfg.anchors != "none" || cfg.allow != "none") {
        run.nontrivial(format!("{tail} vt"));
    }
    let t_state = o.state == "Trusted";
    let t_code = o.any("signingCredential.trusted");
    let u_code = o.any("signingCredential.untrusted");
    run.outcome(format!("vt={} cond={:?} -> {} trustedcode={} untrustedcode={}", cfg.vt, t.cond, o.state, t_code, u_code));
    let why = format!(
        "allow-listed={} linked-to-anchor={:?} eku-accepted={} => policy condition {:?}; observed state {} codes {:?}",
        t.allow_hit, t.linked, t.eku_ok, t.cond, o.state, o.pick(&["signingCredential"])
    );
    if !cfg.vt {
        // with trust verification disabled no trust verdict is issued
        if t_state || t_code || u_code {
            run.violation(format!("verdict-with-verify_trust-off state={} trusted={t_code} untrusted={u_code} {tail}", o.state), why, case);
        }
        return;
    }
    match t.cond {
        Some(false) => {
            if t_state {
                run.violation(format!("trusted-state policy-unsatisfied {tail}"), why, case);
            } else if t_code {
                let reason = if t.linked != Some(false) && !t.eku_ok { "eku-unaccepted" } else { "no-path" };
                let key = if reason == "eku-unaccepted" {
                    format!("trusted-code policy-unsatisfied reason=eku-unaccepted eku={eku}")
                } else {
                    format!("trusted-code policy-unsatisfied reason=no-path {tail}")
                };
                run.violation(key, format!("{tail}: {why}"), case);
            } else if !u_code && !o.state.starts_with("Err") {
                run.violation(format!("not-reported-untrusted {tail}"), why, case);
            }
        }
        Some(true) => {
            if t.clean && !t_state {
                run.violation(format!("not-trusted policy-satisfied state={} {tail}", o.state), why, case);
            }
        }
        None => {}
    }
}

// ---------------------------------------------------------------------------------------------------------
// direct seam: CertificateTrustPolicy, including trust-anchor-only mode
// ---------------------------------------------------------------------------------------------------------
fn direct(run: &Run, w: &World, shape: &str, kind: KeyKind, chain: &str) {
    let pool = [None, Some(Id::Root), Some(Id::Inter(w.h.inters.len().max(1))), Some(Id::Unrelated), Some(Id::Lookalike)];
    let x5 = w.x5chain(chain);
    let supplied = w.supplied(chain);
    for sys in pool {
        for user in pool {
            if [sys, user].iter().flatten().any(|id| w.cert(*id).is_none()) {
                continue;
            }
            for allow in ["none", "ee-pem", "other-pem"] {
                for tao in [false, true] {
                    let mut ctp = CertificateTrustPolicy::new();
                    ctp.add_default_valid_ekus();
                    if let Some(id) = sys {
                        let _ = ctp.add_trust_anchors(w.cert(id).map(|c| c.pem()).unwrap_or_default().as_bytes());
                    }
                    if let Some(id) = user {
                        let _ = ctp.add_user_trust_anchors(w.cert(id).map(|c| c.pem()).unwrap_or_default().as_bytes());
                    }
                    match allow {
                        "ee-pem" => {
                            let _ = ctp.add_end_entity_credentials(w.h.ee.pem().as_bytes());
                        }
                        "other-pem" => {
                            let _ = ctp.add_end_entity_credentials(w.other_ee.pem().as_bytes());
                        }
                        _ => {}
                    }
                    ctp.set_trust_anchors_only(tao);
                    let r = par::guard(|| ctp.check_certificate_trust(&x5[1..], &x5[0], None));
                    run.eval();
                    let sysv: Vec<Id> = sys.into_iter().collect();
                    let userv: Vec<Id> = user.into_iter().collect();
                    let l_sys = links(w, shape, &supplied, &sysv);
                    let l_user = links(w, shape, &supplied, &userv);
                    let tail = format!("shape={shape} chain={chain} sys={sys:?} user={user:?} allow={allow} anchors_only={tao} kind={}", kind.name());
                    let case = json!({"seam":"direct","shape":shape,"kind":kind.name(),"chain":chain,"sys":format!("{sys:?}"),"user":format!("{user:?}"),"allow":allow,"anchors_only":tao});
                    if tao && user.is_some() {
                        run.nontrivial(format!("direct {tail}"));
                    }
                    let r = match r {
                        Err(p) => {
                            run.violation(format!("direct panic {tail}"), p, case);
                            continue;
                        }
                        Ok(r) => r,
                    };
                    run.outcome(format!("direct {}", match &r { Ok(t) => format!("Ok({t:?})"), Err(e) => format!("Err({e:?})") }));
                    let why = format!("linked via system anchors {l_sys:?}, via user anchors {l_user:?}, allow-listed {}; result {r:?}", allow == "ee-pem");
                    match r {
                        Ok(TrustAnchorType::EndEntity) => {
                            if allow != "ee-pem" {
                                run.violation(format!("direct allow-list-hit-without-entry {tail}"), why, case);
                            }
                        }
                        Ok(TrustAnchorType::System) => {
                            if l_sys == Some(false) {
                                run.violation(format!("direct system-trust-without-path {tail}"), why, case);
                            }
                        }
                        Ok(TrustAnchorType::User) => {
                            if tao {
                                run.violation(format!("direct user-anchor-accepted-in-anchors-only-mode {tail}"), why, case);
                            } else if l_user == Some(false) {
                                run.violation(format!("direct user-trust-without-path {tail}"), why, case);
                            }
                        }
                        Ok(TrustAnchorType::NoCheck) => run.violation(format!("direct nocheck-from-non-passthrough-policy {tail}"), why, case),
                        Err(_) => {
                            let clean = matches!(shape, "d1" | "d2" | "d3") && matches!(chain, "complete" | "leaf-only");
                            let must = allow == "ee-pem" || (clean && (l_sys == Some(true) || (!tao && l_user == Some(true))));
                            if must {
                                run.violation(format!("direct rejected policy-satisfied {tail}"), why, case);
                            }
                        }
                    }
                }
            }
        }
    }
}


// ---------------------------------------------------------------------------------------------------------
// validity windows x signing time x anchor kind
// ---------------------------------------------------------------------------------------------------------
const V_WHICH: &[&str] = &["ee", "inter"];
const V_WINDOWS: &[&str] = &["valid", "expired", "future"];
const V_TIMES: &[&str] = &["none", "inside", "before-notBefore", "after-notAfter"];
const V_ANCHORS: &[&str] = &["system", "user", "both"];

fn v_window(w: &str, now: i64) -> (i64, i64) {
    match w {
        "valid" => (now - 30 * pki::DAY, now + 10 * pki::DAY),
        "expired" => (now - 60 * pki::DAY, now - 30 * pki::DAY),
        "future" => (now + 30 * pki::DAY, now + 60 * pki::DAY),
        other => kit::ev::machinery(format!("C05: unknown window {other}")),
    }
}

/// signing time of a case; all values lie inside the 2020-2040 validity of every other certificate of the hierarchy
fn v_time(t: &str, win: (i64, i64)) -> Option<i64> {
    match t {
        "none" => None,
        "inside" => Some((win.0 + win.1) / 2),
        "before-notBefore" => Some(win.0 - pki::DAY),
        "after-notAfter" => Some(win.1 + pki::DAY),
        other => kit::ev::machinery(format!("C05: unknown time {other}")),
    }
}

/// root -> inter -> ee, one of (ee, inter) with the given window, everything else valid 2020-2040
fn v_hierarchy(which: &str, window: &str, kind: KeyKind, now: i64) -> Hierarchy {
    let slot = format!("c05v-{}", kind.name());
    let win = v_window(window, now);
    let root = pki::issue(&CertSpec::ca("c05v Root CA", None), &pki::gen_key(kind, &format!("{slot}-root")), None);
    let mut is = CertSpec::ca("c05v Intermediate CA", Some(0));
    if which == "inter" {
        (is.not_before, is.not_after) = win;
    }
    let inter = pki::issue(&is, &pki::gen_key(kind, &format!("{slot}-int")), Some(&root));
    let mut es = CertSpec::ee("c05v signer");
    if which == "ee" {
        (es.not_before, es.not_after) = win;
    }
    let ee = pki::issue(&es, &pki::gen_key(kind, &format!("{slot}-ee")), Some(&inter));
    Hierarchy { root: Some(root), inters: vec![inter], ee }
}

fn v_policy(h: &Hierarchy, anchors: &str) -> CertificateTrustPolicy {
    let root = h.root.as_ref().map(|r| r.pem()).unwrap_or_default();
    let mut ctp = CertificateTrustPolicy::new();
    ctp.add_default_valid_ekus();
    if anchors != "user" {
        let _ = ctp.add_trust_anchors(root.as_bytes());
    }
    if anchors != "system" {
        let _ = ctp.add_user_trust_anchors(root.as_bytes());
    }
    ctp
}

/// Direct seam: CertificateTrustPolicy::check_certificate_trust(chain, ee, signing_time_epoch).
fn validity_direct(run: &Run, which: &str, window: &str, time: &str, kind: KeyKind, now: i64) {
    let h = v_hierarchy(which, window, kind, now);
    let win = v_window(window, now);
    let t = v_time(time, win);
    let x5 = h.chain(false);
    let valid_at_t = t.map(|t| t >= win.0 && t <= win.1);
    let mut classes: Vec<(&str, String, bool)> = vec![];
    for a in V_ANCHORS {
        let ctp = v_policy(&h, a);
        let r = par::guard(|| ctp.check_certificate_trust(&x5[1..], &x5[0], t));
        run.eval();
        let tail = format!("which={which} window={window} time={time} anchors={a} kind={}", kind.name());
        run.nontrivial(format!("validity direct {tail}"));
        let case = json!({"seam":"validity-direct","which":which,"window":window,"time":time,"kind":kind.name()});
        let r = match r {
            Err(p) => {
                run.violation(format!("validity direct panic {tail}"), p, case);
                continue;
            }
            Ok(r) => r,
        };
        let shown = match &r { Ok(t) => format!("Ok({t:?})"), Err(e) => format!("Err({e:?})") };
        run.outcome(format!("validity direct window={window} time={time} anchors={a}: {shown}"));
        let why = format!("{which} certificate valid {}..{}, signing time {t:?} (valid at that time: {valid_at_t:?}); result {shown}", pki::der::time_string(win.0), pki::der::time_string(win.1));
        match (valid_at_t, r.is_ok()) {
            (Some(false), true) => run.violation(format!("validity direct trusted-outside-validity {tail}"), why.clone(), case.clone()),
            (Some(true), false) => run.violation(format!("validity direct not-trusted-inside-validity {tail}"), why.clone(), case.clone()),
            _ => {}
        }
        if *a == "user" && matches!(r, Ok(TrustAnchorType::System)) || *a == "system" && matches!(r, Ok(TrustAnchorType::User)) {
            run.violation(format!("validity direct wrong-anchor-kind-reported {tail}"), why.clone(), case.clone());
        }
        classes.push((a, shown, r.is_ok()));
    }
    // the verdict must not depend on whether the same root is a system or a user anchor
    if classes.len() == 3 && !(classes[0].2 == classes[1].2 && classes[1].2 == classes[2].2) {
        run.violation(
            format!("validity direct anchor-kind-dependence which={which} window={window} time={time} system={} user={} both={} kind={}", classes[0].1, classes[1].1, classes[2].1, kind.name()),
            format!("same hierarchy, same signing time {t:?}: {classes:?}"),
            json!({"seam":"validity-direct","which":which,"window":window,"time":time,"kind":kind.name()}),
        );
    }
}

/// Reader seam: the window-carrying hierarchy signs a PNG, a kit TSA fixes the signing time.
fn validity_reader(run: &Run, tsa: &std::sync::Arc<pki::Tsa>, which: &str, window: &str, time: &str, kind: KeyKind, now: i64) {
    let h = v_hierarchy(which, window, kind, now);
    let win = v_window(window, now);
    let t = v_time(time, win);
    if t.is_some_and(|t| t > now - 600) {
        return; // a token dated in the future is not a case the property describes
    }
    let minted: std::sync::Arc<std::sync::Mutex<Vec<(Vec<u8>, Vec<u8>)>>> = Default::default();
    let mut signer = KitSigner::for_hierarchy(&h).direct();
    if let Some(gt) = t {
        let (tsa2, m2) = (tsa.clone(), minted.clone());
        signer = signer.with_tsa(std::sync::Arc::new(move |msg: &[u8]| {
            let imprint = pki::sha256(msg);
            let reply = tsa2.build_reply(&imprint, &pki::TokenOpts { gen_time: gt, signing_time_attr: None, serial: pki::next_serial(), include_certs: true });
            m2.lock().unwrap().push((reply.clone(), imprint));
            Some(Ok(reply))
        }));
    }
    let signed = pki::sign_asset(&signer, "image/png", &kit::assets::png(), pki::DEF_V2).unwrap_or_else(|e| kit::ev::machinery(format!("C05 validity: signing failed: {e}")));
    if let Some(gt) = t {
        let g = minted.lock().unwrap();
        let Some((reply, imprint)) = g.last() else { kit::ev::machinery("C05 validity: no time-stamp requested") };
        let token = pki::token_of_reply(reply).unwrap_or_else(|| kit::ev::machinery("C05 validity: reply without token"));
        if !pki::ts_verify_cli(&token, imprint, &[&tsa.root], Some(gt)) {
            kit::ev::machinery("C05 validity: openssl ts -verify rejects the kit token");
        }
    }
    let valid_at_t = t.map(|t| t >= win.0 && t <= win.1);
    let root = h.root.as_ref().map(|r| r.pem()).unwrap_or_default();
    let mut seen: Vec<(&str, String, bool)> = vec![];
    for a in V_ANCHORS {
        // the TSA root is always a system anchor; only the kind of the signing root varies
        let sys = if *a == "user" { tsa.root.pem() } else { format!("{}{}", tsa.root.pem(), root) };
        let mut trust = serde_json::Map::new();
        trust.insert("trust_anchors".into(), json!(sys));
        if *a != "system" {
            trust.insert("user_anchors".into(), json!(root));
        }
        let o = pki::observe(pki::read_ctx(Value::Object(trust), json!({"verify_trust": true})), "image/png", &signed);
        run.eval();
        let tail = format!("which={which} window={window} time={time} anchors={a} kind={}", kind.name());
        run.nontrivial(format!("validity reader {tail}"));
        let case = json!({"seam":"validity-reader","which":which,"window":window,"time":time,"kind":kind.name()});
        let o = match o {
            Err(p) => {
                run.violation(format!("validity reader panic {tail}"), p, case);
                continue;
            }
            Ok(o) => o,
        };
        let trusted = o.state == "Trusted" || o.any("signingCredential.trusted");
        run.outcome(format!("validity reader window={window} time={time} anchors={a}: {} {:?}", o.state, o.pick(&["signingCredential"])));
        let why = format!("{which} certificate valid {}..{}, time-stamped signing time {t:?} (valid then: {valid_at_t:?}); state {} codes {:?}", pki::der::time_string(win.0), pki::der::time_string(win.1), o.state, o.pick(&["signingCredential", "timeStamp"]));
        if t.is_some() && !o.has("success", "timeStamp.validated") {
            kit::ev::machinery(format!("C05 validity: the SDK does not use a good kit time-stamp ({tail}): {why}"));
        }
        match valid_at_t {
            Some(false) if trusted => run.violation(format!("validity reader trusted-outside-validity {tail} state={}", o.state), why.clone(), case.clone()),
            Some(true) if o.state != "Trusted" => run.violation(format!("validity reader not-trusted-inside-validity {tail} state={}", o.state), why.clone(), case.clone()),
            _ => {}
        }
        seen.push((a, format!("{} {:?}", o.state, o.pick(&["signingCredential"])), trusted));
    }
    if seen.len() == 3 && !(seen[0].1 == seen[1].1 && seen[1].1 == seen[2].1) {
        run.violation(
            format!("validity reader anchor-kind-dependence which={which} window={window} time={time} kind={}", kind.name()),
            format!("same asset, signing root configured as system / user / both anchor: {seen:?}"),
            json!({"seam":"validity-reader","which":which,"window":window,"time":time,"kind":kind.name()}),
        );
    }
}

fn validity_section(run: &Run, kinds: &[KeyKind], only: Option<&Value>) {
    let now = pki::now();
    let tsa = std::sync::Arc::new(pki::Tsa::new("c05v", KeyKind::P256, |_| {}));
    let mut items: Vec<(&str, &str, &str, KeyKind)> = vec![];
    for &kind in kinds {
        for which in V_WHICH {
            for window in V_WINDOWS {
                for time in V_TIMES {
                    items.push((which, window, time, kind));
                }
            }
        }
    }
    if let Some(c) = only {
        let f = |k: &str, set: &'static [&'static str]| set.iter().find(|x| Some(**x) == c[k].as_str()).copied().unwrap_or(set[0]);
        let (which, window, time) = (f("which", V_WHICH), f("window", V_WINDOWS), f("time", V_TIMES));
        let kind = KeyKind::from_name(c["kind"].as_str().unwrap_or("p256"));
        if c["seam"] == "validity-direct" {
            validity_direct(run, which, window, time, kind, now);
        } else {
            validity_reader(run, &tsa, which, window, time, kind, now);
        }
        return;
    }
    run.space("validity direct: (varied certificate, window, signing time, key type) x anchor kind {system, user, both}", items.len() as u64 * 3, true);
    par::for_each(&items, |(which, window, time, kind)| validity_direct(run, which, window, time, *kind, now));
    let ritems: Vec<_> = items.iter().filter(|i| i.3 == KeyKind::P256 && v_time(i.2, v_window(i.1, now)).map_or(true, |t| t <= now - 600)).cloned().collect();
    run.space("validity reader: (varied certificate, window, time-stamped signing time) x anchor kind (future-dated tokens excluded)", ritems.len() as u64 * 3, true);
    par::for_each(&ritems, |(which, window, time, kind)| validity_reader(run, &tsa, which, window, time, *kind, now));
    run.sample(json!({"validity_case": {"seam":"validity-direct","which":"ee","window":"expired","time":"inside","anchors":["system","user","both"]}}));
}

// ---------------------------------------------------------------------------------------------------------
fn configs(eku: &str, thorough: bool) -> Vec<Cfg> {
    let mut v = vec![];
    for anchors in ANCHORS {
        for allow in ALLOW {
            for tc in [false, true] {
                if tc && eku != "custom" && !(thorough && eku == "serverAuth") {
                    continue; // trust_config only matters for the OID it lists
                }
                for vt in [true, false] {
                    v.push(Cfg { anchors, allow, tc, vt });
                }
            }
        }
    }
    v
}

/// `openssl verify` must agree with the reference model wherever the model is definite and the case clean
/// (otherwise the harness's own ground truth is in doubt: machinery failure, never a verdict).
fn cross_check_model(w: &World, shape: &str, chain: &str) -> u64 {
    let mut n = 0;
    for a in ["root-sys", "issuer-sys", "unrelated-sys", "lookalike-sys"] {
        let Some((sys, _)) = anchor_sets(w, a) else { continue };
        let model = links(w, shape, &w.supplied(chain), &sys);
        let anchors: Vec<Vec<u8>> = sys.iter().filter_map(|i| w.cert(*i)).map(|c| c.der.clone()).collect();
        let ossl = pki::verify_cli(&anchors, &w.x5chain(chain));
        n += 1;
        let clean = matches!(shape, "d1" | "d2" | "d3") && matches!(chain, "complete" | "leaf-only");
        match model {
            Some(false) if ossl => kit::ev::machinery(format!("C05: reference model says no path but openssl verify accepts: {shape} {chain} {a}")),
            Some(true) if clean && !ossl => kit::ev::machinery(format!("C05: reference model says path but openssl verify rejects: {shape} {chain} {a}")),
            _ => {}
        }
    }
    n
}

fn run_reader_case(run: &Run, shape: &str, kind: KeyKind, eku: &str, chain: &str, cfgs: &[Cfg], w: &World) {
    let signer = KitSigner::new(&w.h.ee.key, w.x5chain(chain)).direct();
    let signed = match pki::sign_asset(&signer, "image/png", &kit::assets::png(), pki::DEF_V2) {
        Ok(b) => b,
        Err(e) => kit::ev::machinery(format!("C05: direct-COSE signing failed for {shape}/{eku}/{chain}: {e}")),
    };
    for cfg in cfgs {
        let Some(t) = truth(w, shape, eku, chain, cfg) else { continue };
        let o = pki::observe(reader_ctx(w, cfg), "image/png", &signed);
        judge(run, shape, kind, eku, chain, cfg, &t, &o);
    }
}

pub fn run(run: &Run, replay: Option<&Value>) {
    run.rule("hierarchy shape (depth 0-3, intermediate not a CA / without keyCertSign / pathLen exceeded / expired) x EE EKU (email, documentSigning, custom OID, serverAuth, anyEKU, absent) \
              x supplied chain (complete, +root, leaf only, missing upper/lower intermediate, reordered, same-name issuer from another root) x anchors (none, root as system/user, EE issuer as system, \
              unrelated, same-name look-alike root, mixed) x allow list (none, EE PEM, EE hash, other) x trust_config x verify_trust, full cross through Reader; plus CertificateTrustPolicy directly \
              with every (system, user) anchor pair x allow list x trust-anchor-only mode; plus validity window of EE / intermediate x signing time x anchor kind {system, user, both} on check_certificate_trust(chain, ee, signing_time) and, time-stamped by the kit TSA, through Reader. non-trivial = configurations with verify_trust on and some trust material configured (Reader), \
              direct cases with a user anchor in trust-anchor-only mode, and every validity case.");
    run.assume("ground truth by construction: the kit knows which key signed which certificate; it is cross-checked against `openssl verify -x509_strict -partial_chain` for every (shape, chain, single anchor) and a disagreement on a definite case is a machinery failure");
    run.assume("'policy satisfied => Trusted' is demanded only for strictly conforming hierarchies with an ordered chain and an accepted EKU; an expired intermediate, a supplied root, a reordered chain and allow-listed certificates with an unaccepted EKU are checked in the direction 'trusted => policy satisfied' only");
    run.assume("validity dimension: one certificate of a root->intermediate->EE chain gets the window {-30..+10 days, expired 30 days ago, valid from in 30 days}, signing time {none, inside, one day before notBefore, one day after notAfter}; with a signing time: not valid then => never trusted, valid then => trusted; without one only the system/user-anchor differential is demanded; Reader cases use kit time-stamps accepted by `openssl ts -verify` and exclude future-dated tokens");
    run.assume("an end-entity certificate configured as its own trust anchor is not enumerated (the property does not say whether that is a chain)");
    if !pki::cli_available() {
        kit::ev::machinery("C05: openssl CLI not available");
    }
    let kinds: Vec<KeyKind> = if run.tier.is_thorough() { vec![KeyKind::P256, KeyKind::Ed25519, KeyKind::Rsa2048, KeyKind::P384] } else { vec![KeyKind::P256] };

    if let Some(c) = replay {
        if c["seam"].as_str().is_some_and(|x| x.starts_with("validity")) {
            validity_section(run, &kinds, Some(c));
            return;
        }
        let shape = SHAPES.iter().find(|s| Some(**s) == c["shape"].as_str()).copied().unwrap_or("d1");
        let kind = KeyKind::from_name(c["kind"].as_str().unwrap_or("p256"));
        let chain_s = c["chain"].as_str().unwrap_or("complete");
        let chain = chains_for(shape).iter().find(|x| **x == chain_s).copied().unwrap_or_else(|| kit::ev::machinery("C05 replay: chain variant not valid for shape"));
        if c["seam"] == "direct" {
            let w = world(shape, kind, "email");
            direct(run, &w, shape, kind, chain);
            return;
        }
        let eku = EKUS.iter().find(|s| Some(**s) == c["eku"].as_str()).copied().unwrap_or("email");
        let cfg = Cfg {
            anchors: ANCHORS.iter().find(|s| Some(**s) == c["anchors"].as_str()).copied().unwrap_or("none"),
            allow: ALLOW.iter().find(|s| Some(**s) == c["allow"].as_str()).copied().unwrap_or("none"),
            tc: c["trust_config_custom"].as_bool().unwrap_or(false),
            vt: c["verify_trust"].as_bool().unwrap_or(true),
        };
        let w = world(shape, kind, eku);
        println!("replay {c}\n  end-entity certificate:\n{}", w.h.ee.pem());
        run_reader_case(run, shape, kind, eku, chain, &[cfg], &w);
        return;
    }

    // determinism / baseline: a clean d2 chain with the root anchored must read Trusted twice
    {
        let w = world("d2", KeyKind::P256, "email");
        let signer = KitSigner::new(&w.h.ee.key, w.x5chain("complete")).direct();
        let signed = pki::sign_asset(&signer, "image/png", &kit::assets::png(), pki::DEF_V2).unwrap_or_else(|e| kit::ev::machinery(format!("C05 baseline sign: {e}")));
        let cfg = Cfg { anchors: "root-sys", allow: "none", tc: false, vt: true };
        let a = pki::observe(reader_ctx(&w, &cfg), "image/png", &signed);
        let b = pki::observe(reader_ctx(&w, &cfg), "image/png", &signed);
        run.evals(2);
        if a != b {
            kit::ev::machinery(format!("C05: baseline not deterministic: {a:?} vs {b:?}"));
        }
        run.sample(json!({"baseline": case_json("d2", KeyKind::P256, "email", "complete", &cfg), "observed": a.as_ref().map(|o| o.class()).unwrap_or_default()}));
    }

    // work items: (shape, kind, eku, chain)
    let mut items: Vec<(&str, KeyKind, &str, &str)> = vec![];
    for &kind in &kinds {
        for shape in SHAPES {
            for eku in EKUS {
                for chain in chains_for(shape) {
                    items.push((shape, kind, eku, chain));
                }
            }
        }
    }
    let n_cfg: u64 = items.iter().map(|(_, _, eku, _)| configs(eku, run.tier.is_thorough()).len() as u64).sum();
    run.space("Reader: (shape, key type, EKU, chain variant) x (anchors, allow list, trust_config, verify_trust)", n_cfg, true);
    let cli_checks = std::sync::atomic::AtomicU64::new(0);
    // worlds are per (shape, kind, eku); build them once per item (generation is cheap except RSA, which is cached)
    par::for_each(&items, |(shape, kind, eku, chain)| {
        let w = world(shape, *kind, eku);
        if *eku == "email" {
            cli_checks.fetch_add(cross_check_model(&w, shape, chain), std::sync::atomic::Ordering::Relaxed);
        }
        run_reader_case(run, shape, *kind, eku, chain, &configs(eku, run.tier.is_thorough()), &w);
    });
    run.extra("openssl_verify_cross_checks_of_the_reference_model", json!(cli_checks.load(std::sync::atomic::Ordering::Relaxed)));

    // direct seam
    let ditems: Vec<(&str, KeyKind, &str)> = items.iter().filter(|i| i.2 == "email").map(|i| (i.0, i.1, i.3)).collect();
    run.space("CertificateTrustPolicy: (shape, key type, chain) x (system anchor, user anchor) x allow list x trust-anchor-only", ditems.len() as u64 * 5 * 5 * 3 * 2, true);
    par::for_each(&ditems, |(shape, kind, chain)| {
        let w = world(shape, *kind, "email");
        direct(run, &w, shape, *kind, chain);
    });
    validity_section(run, &kinds, None);
    run.sample(json!({"reader_case": case_json("d3", KeyKind::P256, "custom", "missing-upper", &Cfg{anchors:"root-user", allow:"ee-hash", tc:true, vt:true})}));
}

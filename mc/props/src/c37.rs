//! C37 — revocation evidence is bound to the signing certificate.
//! S-env: the kit signer staples (`Signer::ocsp_val`) or asserts (`c2pa.certificate-status`) an OCSP response from a
//! menu minted by `openssl ocsp` and by the kit's own encoder (good / revoked / unknown for the signing certificate;
//! revoked for a sibling certificate, for a same-serial certificate of another CA; right CertID but signed by a
//! foreign or self-made responder; signed by the issuing CA itself; expired), and a validly signed "revoked"
//! response with EVERY byte altered in turn (in place: rVals lives in the unprotected COSE header).
//! Oracle: revoked-for-this-certificate by an authorised responder (by construction) => never Valid/Trusted;
//! not about the signing certificate, or not validly signed (by construction: foreign responder, altered byte in the
//! signed data / signature / algorithm / responder key) => state and failure codes equal those of the same
//! credential signing without revocation evidence. Everything else is recorded, not judged.
//!
//! Mutants caught (tools/mutant_run.sh E <patch> C37 quick):
//!   mutants/C37-no-certid-check.diff   (cert_id_matches_signer always true)
//!   mutants/C37-no-sig-check.diff      (OCSP response signature not verified)
//!   /tmp/seed-C37/OUT/patch.diff       (independently seeded: 'any entry matches' instead of per-entry CertID filter; caught by multi-*)

use std::sync::Mutex;

use kit::{
    par,
    pki::{self, Cert, CertSpec, Hierarchy, KeyKind, KitSigner, Obs, OcspOpts, OcspStatus, DAY},
    Run,
};
use serde::Serialize;
use serde_json::{json, Value};

/// c2pa.certificate-status payload in the form the SDK itself reads and writes: its CBOR codec reports
/// `is_human_readable()`, so the crate-private `CertificateStatus` carries the responses as base64 text.
#[derive(Serialize)]
struct CertStatusAssertion {
    #[serde(rename = "ocspVals")]
    ocsp_vals: Vec<String>,
}

struct World {
    now: i64,
    /// root -> inter -> ee ; x5chain = [ee, inter]
    h: Hierarchy,
    responder: Cert,
    sibling: Cert,
    sibling2: Cert,
    /// another PKI whose end-entity certificate has the same serial number as ours
    foreign: Hierarchy,
    foreign_responder: Cert,
    selfmade_responder: Cert,
    /// root1 -> ee1 ; x5chain = [ee1] (issuer = the trust anchor, not conveyed)
    h1: Hierarchy,
    responder1: Cert,
}

fn world(kind: KeyKind) -> World {
    let now = pki::now();
    let h = Hierarchy::build("c37", 2, kind, CertSpec::ee("c37 signer"));
    let inter = h.ee_issuer().cloned().unwrap_or_else(|| kit::ev::machinery("C37: no issuer"));
    let responder = pki::issue(&CertSpec::ocsp_responder("c37 responder"), &pki::gen_key(kind, "c37-resp"), Some(&inter));
    let sibling = pki::issue(&CertSpec::ee("c37 sibling"), &pki::gen_key(kind, "c37-sib"), Some(&inter));
    let sibling2 = pki::issue(&CertSpec::ee("c37 sibling 2"), &pki::gen_key(kind, "c37-sib2"), Some(&inter));
    let mut fs = CertSpec::ee("c37 foreign signer");
    fs.serial = h.ee.spec.serial;
    let foreign = Hierarchy::build("c37-foreign", 2, kind, fs);
    let finter = foreign.ee_issuer().cloned().unwrap_or_else(|| kit::ev::machinery("C37: no foreign issuer"));
    let foreign_responder = pki::issue(&CertSpec::ocsp_responder("c37 foreign responder"), &pki::gen_key(kind, "c37-fresp"), Some(&finter));
    let mut sm = CertSpec::ocsp_responder("c37 self-made responder");
    sm.aki = true;
    let selfmade_responder = pki::issue(&sm, &pki::gen_key(kind, "c37-selfresp"), None);
    let h1 = Hierarchy::build("c37-d1", 1, kind, CertSpec::ee("c37 d1 signer"));
    let root1 = h1.root.clone().unwrap_or_else(|| kit::ev::machinery("C37: no root1"));
    let responder1 = pki::issue(&CertSpec::ocsp_responder("c37 d1 responder"), &pki::gen_key(kind, "c37-resp1"), Some(&root1));
    World { now, h, responder, sibling, sibling2, foreign, foreign_responder, selfmade_responder, h1, responder1 }
}

#[derive(Clone, Copy, PartialEq, Eq, Debug)]
enum Expect {
    /// revoked for the signing certificate, by construction
    NotValid,
    /// does not concern the signing certificate or is not validly signed, by construction
    SameAsBaseline,
    /// the property does not fix the verdict
    Open,
}

#[derive(Clone, Copy, PartialEq, Eq, Debug)]
enum Signing {
    /// depth-2 hierarchy, x5chain [ee, inter]
    D2,
    /// depth-1 hierarchy, x5chain [ee]
    D1Leaf,
    /// depth-1 hierarchy, x5chain [ee, root]
    D1WithRoot,
}

const SCENARIOS: &[(&str, Signing, Expect)] = &[
    ("good-cli", Signing::D2, Expect::Open),
    ("revoked-cli", Signing::D2, Expect::NotValid),
    ("revoked-kit", Signing::D2, Expect::NotValid),
    ("revoked-kit-responder-by-key", Signing::D2, Expect::NotValid),
    ("revoked-signed-by-issuing-ca", Signing::D2, Expect::NotValid),
    ("unknown-cli", Signing::D2, Expect::Open),
    ("sibling-certificate-revoked", Signing::D2, Expect::SameAsBaseline),
    ("other-ca-same-serial-revoked", Signing::D2, Expect::SameAsBaseline),
    ("other-ca-certid-signed-by-our-responder", Signing::D2, Expect::SameAsBaseline),
    ("right-certid-foreign-responder", Signing::D2, Expect::SameAsBaseline),
    ("right-certid-self-made-responder", Signing::D2, Expect::SameAsBaseline),
    ("revoked-expired-response", Signing::D2, Expect::Open),
    ("good-expired-response", Signing::D2, Expect::Open),
    ("multi-revoked-signer+good-sibling", Signing::D2, Expect::NotValid),
    ("multi-good-sibling+revoked-signer", Signing::D2, Expect::NotValid),
    ("multi-good-signer+revoked-sibling", Signing::D2, Expect::SameAsBaseline),
    ("multi-revoked-sibling+good-sibling2", Signing::D2, Expect::SameAsBaseline),
    ("revoked-issuer-is-anchor-not-in-x5chain", Signing::D1Leaf, Expect::NotValid),
    ("revoked-issuer-root-in-x5chain", Signing::D1WithRoot, Expect::NotValid),
];

fn kit_resp(w: &World, subject: &Cert, issuer: &Cert, status: OcspStatus, responder: &Cert, embed: Vec<&Cert>, by_key: bool, expired: bool) -> Vec<u8> {
    let (this, next) = if expired { (w.now - 60 * DAY, w.now - 53 * DAY) } else { (w.now - 3600, w.now + 7 * DAY) };
    pki::build_ocsp(&OcspOpts { subject, subject_issuer: issuer, status, this_update: this, next_update: Some(next), produced_at: this, responder, embed, by_key })
}

fn response(w: &World, scenario: &str) -> Vec<u8> {
    let inter = w.h.ee_issuer().unwrap_or_else(|| kit::ev::machinery("C37: issuer"));
    let finter = w.foreign.ee_issuer().unwrap_or_else(|| kit::ev::machinery("C37: foreign issuer"));
    let root1 = w.h1.root.as_ref().unwrap_or_else(|| kit::ev::machinery("C37: root1"));
    let revoked = || OcspStatus::Revoked(w.now - 100 * DAY, None);
    let cli = |st: OcspStatus| pki::ocsp_cli(inter, &w.h.ee, &w.responder, &st, 7).unwrap_or_else(|e| kit::ev::machinery(format!("C37: {e}")));
    match scenario {
        "good-cli" => cli(OcspStatus::Good),
        "revoked-cli" => cli(OcspStatus::Revoked(w.now - 100 * DAY, Some(1))),
        "unknown-cli" => cli(OcspStatus::Unknown),
        "revoked-kit" => kit_resp(w, &w.h.ee, inter, revoked(), &w.responder, vec![&w.responder], false, false),
        "revoked-kit-responder-by-key" => kit_resp(w, &w.h.ee, inter, revoked(), &w.responder, vec![&w.responder], true, false),
        "revoked-signed-by-issuing-ca" => kit_resp(w, &w.h.ee, inter, revoked(), inter, vec![inter], false, false),
        "multi-revoked-signer+good-sibling" | "multi-good-sibling+revoked-signer" | "multi-good-signer+revoked-sibling" | "multi-revoked-sibling+good-sibling2" => {
            let (this, next) = (w.now - 3600, w.now + 7 * DAY);
            let (main_subject, main_status, other, other_status, other_first): (&Cert, OcspStatus, &Cert, OcspStatus, bool) = match scenario {
                "multi-revoked-signer+good-sibling" => (&w.h.ee, revoked(), &w.sibling, OcspStatus::Good, false),
                "multi-good-sibling+revoked-signer" => (&w.h.ee, revoked(), &w.sibling, OcspStatus::Good, true),
                "multi-good-signer+revoked-sibling" => (&w.h.ee, OcspStatus::Good, &w.sibling, revoked(), false),
                _ => (&w.sibling, revoked(), &w.sibling2, OcspStatus::Good, false),
            };
            pki::build_ocsp_multi(
                &OcspOpts { subject: main_subject, subject_issuer: inter, status: main_status, this_update: this, next_update: Some(next), produced_at: this, responder: &w.responder, embed: vec![&w.responder], by_key: false },
                &[(other, inter, other_status, other_first)],
            )
        }
        "sibling-certificate-revoked" => kit_resp(w, &w.sibling, inter, revoked(), &w.responder, vec![&w.responder], false, false),
        "other-ca-same-serial-revoked" => kit_resp(w, &w.foreign.ee, finter, revoked(), &w.foreign_responder, vec![&w.foreign_responder, finter], false, false),
        "other-ca-certid-signed-by-our-responder" => kit_resp(w, &w.foreign.ee, finter, revoked(), &w.responder, vec![&w.responder], false, false),
        "right-certid-foreign-responder" => kit_resp(w, &w.h.ee, inter, revoked(), &w.foreign_responder, vec![&w.foreign_responder, finter], false, false),
        "right-certid-self-made-responder" => kit_resp(w, &w.h.ee, inter, revoked(), &w.selfmade_responder, vec![&w.selfmade_responder], false, false),
        "revoked-expired-response" => kit_resp(w, &w.h.ee, inter, revoked(), &w.responder, vec![&w.responder], false, true),
        "good-expired-response" => kit_resp(w, &w.h.ee, inter, OcspStatus::Good, &w.responder, vec![&w.responder], false, true),
        "revoked-issuer-is-anchor-not-in-x5chain" | "revoked-issuer-root-in-x5chain" => kit_resp(w, &w.h1.ee, root1, revoked(), &w.responder1, vec![&w.responder1], false, false),
        other => kit::ev::machinery(format!("C37: unknown scenario {other}")),
    }
}

fn signer_for(w: &World, s: Signing) -> KitSigner {
    match s {
        Signing::D2 => KitSigner::for_hierarchy(&w.h),
        Signing::D1Leaf => KitSigner::new(&w.h1.ee.key, w.h1.chain(false)),
        Signing::D1WithRoot => KitSigner::new(&w.h1.ee.key, w.h1.chain(true)),
    }
    .direct()
}

fn ctx(w: &World) -> c2pa::Context {
    let anchors = format!("{}{}", w.h.root.as_ref().map(|r| r.pem()).unwrap_or_default(), w.h1.root.as_ref().map(|r| r.pem()).unwrap_or_default());
    pki::read_ctx(json!({"trust_anchors": anchors}), json!({"verify_trust": true}))
}

#[derive(Clone, Copy, PartialEq, Eq, Debug)]
enum Carrier {
    Stapled,
    Assertion,
}

/// Sign with (optional) revocation evidence; Err = the SDK refused.
fn sign(w: &World, s: Signing, ocsp: Option<(&[u8], Carrier)>) -> Result<Vec<u8>, String> {
    let mut signer = signer_for(w, s);
    let mut assertion: Option<Vec<u8>> = None;
    match ocsp {
        Some((der, Carrier::Stapled)) => signer = signer.with_ocsp(der.to_vec()),
        Some((der, Carrier::Assertion)) => assertion = Some(der.to_vec()),
        None => {}
    }
    let c = kit::sdk::ctx_with(&[r#"{"verify":{"verify_after_sign":false}}"#]);
    let mut b = kit::sdk::builder(c, pki::DEF_V2);
    if let Some(der) = assertion {
        b.add_assertion("c2pa.certificate-status", &CertStatusAssertion { ocsp_vals: vec![pki::b64(&der)] }).map_err(|e| format!("add_assertion: {e:?}"))?;
    }
    match par::guard(|| kit::sdk::sign(&mut b, &signer, "image/png", &kit::assets::png())) {
        Ok(Ok((bytes, _))) => Ok(bytes),
        Ok(Err(e)) => Err(format!("{e:?}")),
        Err(p) => Err(format!("PANIC {p}")),
    }
}

/// the part of an observation the property calls "the verdict"
fn verdict(o: &Obs) -> (String, Vec<String>) {
    let mut f: Vec<String> = o.codes.iter().filter(|c| c.contains("/failure:")).cloned().collect();
    f.sort();
    f.dedup();
    (o.state.clone(), f)
}

fn baseline(w: &World, s: Signing) -> Obs {
    let a = sign(w, s, None).unwrap_or_else(|e| kit::ev::machinery(format!("C37: baseline signing failed: {e}")));
    let o = pki::observe(ctx(w), "image/png", &a).unwrap_or_else(|p| kit::ev::machinery(format!("C37: baseline read panics: {p}")));
    let o2 = pki::observe(ctx(w), "image/png", &a).unwrap_or_else(|p| kit::ev::machinery(format!("C37: baseline read panics: {p}")));
    if o != o2 {
        kit::ev::machinery("C37: baseline read not deterministic");
    }
    if o.state != "Trusted" {
        kit::ev::machinery(format!("C37: baseline ({s:?}) is not Trusted: {} {:?}", o.state, o.codes));
    }
    o
}

fn menu_case(run: &Run, w: &World, name: &str, s: Signing, expect: Expect, carrier: Carrier, base: &Obs) {
    let der = response(w, name);
    // harness preconditions on the evidence itself, by OpenSSL
    let inter = w.h.ee_issuer().unwrap_or_else(|| kit::ev::machinery("C37: issuer"));
    let (anchors, untrusted): (Vec<&Cert>, Vec<&Cert>) = match s {
        Signing::D2 => (w.h.root.iter().collect(), vec![inter]),
        _ => (w.h1.root.iter().collect(), vec![]),
    };
    let ossl_ok = pki::ocsp_verify_inproc(&der, &anchors, &untrusted);
    let should_verify = !matches!(name, "right-certid-foreign-responder" | "right-certid-self-made-responder" | "other-ca-same-serial-revoked" | "other-ca-certid-signed-by-our-responder");
    if ossl_ok != should_verify {
        kit::ev::machinery(format!("C37: OpenSSL OCSP_basic_verify says {ossl_ok} for '{name}' (expected {should_verify}); the kit's evidence is not what the check assumes"));
    }
    run.eval();
    let id = format!("menu/{name}/{carrier:?}");
    let case = json!({"kind":"menu","scenario":name,"carrier":format!("{carrier:?}"),"keys":w.h.ee.key.kind.name()});
    let asset = match sign(w, s, Some((&der, carrier))) {
        Ok(a) => a,
        Err(e) => {
            run.outcome(format!("sign-refused {carrier:?}: {}", e.split('(').next().unwrap_or("")));
            if carrier == Carrier::Stapled {
                kit::ev::machinery(format!("C37: cannot sign with stapled response '{name}': {e}"));
            }
            return;
        }
    };
    let o = match pki::observe(ctx(w), "image/png", &asset) {
        Ok(o) => o,
        Err(p) => {
            run.violation(format!("panic menu scenario={name} carrier={carrier:?}"), p, case);
            return;
        }
    };
    if std::env::var("VERIF_DEBUG").is_ok() && o.state.starts_with("Err") {
        eprintln!("{id}: read error {:?}", kit::sdk::read(ctx(w), "image/png", &asset).err());
    }
    run.nontrivial(id.clone());
    run.outcome(format!("{name}/{carrier:?}: {} {:?}", o.state, o.pick(&["signingCredential"])));
    let what = format!("{id}: state {} codes {:?} (without evidence: {} {:?})", o.state, o.pick(&["signingCredential", "timeStamp"]), base.state, verdict(base).1);
    match expect {
        Expect::NotValid => {
            if o.ok_state() {
                run.violation(format!("revoked-certificate-accepted scenario={name} carrier={carrier:?} state={}", o.state), what, case);
            }
        }
        Expect::SameAsBaseline => {
            if verdict(&o) != verdict(base) {
                run.violation(format!("verdict-changed-by-unrelated-or-unauthorised-response scenario={name} carrier={carrier:?} state={}", o.state), what, case);
            }
        }
        Expect::Open => {}
    }
}

#[derive(Default)]
struct Stats {
    open_same: u64,
    open_changed_ossl_accepts: u64,
    open_changed_ossl_rejects: u64,
    examples: Vec<Value>,
}

struct Seed {
    asset: Vec<u8>,
    at: usize,
    resp: Vec<u8>,
    regions: Vec<(usize, usize, &'static str)>,
    base: Obs,
}

fn sweep_one(run: &Run, w: &World, seed: &Seed, off: usize, mask: u8, stats: &Mutex<Stats>) {
    let mut asset = seed.asset.clone();
    asset[seed.at + off] ^= mask;
    let o = pki::observe(ctx(w), "image/png", &asset);
    run.eval();
    let region = pki::region_of(&seed.regions, off);
    let rname = region.map(|r| r.0).unwrap_or("open");
    let case = json!({"kind":"sweep","offset":off,"mask":mask,"region":rname,"rel":region.map(|r| r.1),"keys":w.h.ee.key.kind.name()});
    let o = match o {
        Err(p) => {
            run.violation(format!("panic sweep region={rname} mask={mask:02x}"), format!("offset {off}: {p}"), case);
            return;
        }
        Ok(o) => o,
    };
    let same = verdict(&o) == verdict(&seed.base);
    run.outcome(format!("sweep {rname}: {} same-as-no-evidence={same}", o.state));
    if region.is_some() {
        run.nontrivial(format!("sweep/{off}/{mask}"));
        if !same {
            run.violation(
                format!("verdict-changed-by-response-with-broken-signature region={rname} mask={mask:02x} state={}", o.state),
                format!("byte {off} of the stapled response ({rname}) xor {mask:02x}: state {} failure codes {:?}; without evidence: {} {:?}", o.state, verdict(&o).1, seed.base.state, verdict(&seed.base).1),
                case,
            );
        }
    } else {
        let mut r = seed.resp.clone();
        r[off] ^= mask;
        let inter = w.h.ee_issuer().into_iter().collect::<Vec<_>>();
        let ossl = pki::ocsp_verify_inproc(&r, &w.h.root.iter().collect::<Vec<_>>(), &inter);
        let mut g = stats.lock().unwrap();
        if same {
            g.open_same += 1;
        } else if ossl {
            g.open_changed_ossl_accepts += 1;
        } else {
            g.open_changed_ossl_rejects += 1;
            if g.examples.len() < 40 {
                g.examples.push(json!({"offset": off, "mask": mask, "state": o.state}));
            }
        }
    }
}

pub fn run(run: &Run, replay: Option<&Value>) {
    run.rule("menu: 19 OCSP scenarios (4 of them multi-entry responses mixing the signing certificate with sibling certificates) (see SCENARIOS) stapled through Signer::ocsp_val, and those of them that make sense as a c2pa.certificate-status assertion; \
              sweep: a validly signed 'revoked' response stapled in the asset with EVERY byte xor-ed in turn (quick 0x01; thorough 0x01, 0x80, 0xFF). \
              non-trivial = menu cases that were read back, and sweep cases whose byte lies in tbsResponseData / signatureAlgorithm / signature / responder public key.");
    run.assume("reader trusts the signing roots (without trust anchors the SDK cannot authorise any responder and ignores all evidence); no time-stamp, so the signing time is 'now'");
    run.assume("evidence is checked by OpenSSL's OCSP_basic_verify before use: validly signed + authorised where the scenario says so, rejected for the foreign / self-made responder; disagreement is a machinery failure");
    run.assume("verdict = validation state + failure-bin codes (informational OCSP notes may differ); 'unknown', 'good' and expired responses are recorded, not judged; revocation before a time-stamped signing time is not enumerated");
    if !pki::cli_available() {
        kit::ev::machinery("C37: openssl CLI not available");
    }
    let kinds: Vec<KeyKind> = if run.tier.is_thorough() { vec![KeyKind::P256, KeyKind::Rsa2048, KeyKind::P384] } else { vec![KeyKind::P256] };

    if let Some(c) = replay {
        let w = world(KeyKind::from_name(c["keys"].as_str().unwrap_or("p256")));
        if c["kind"] == "menu" {
            let name = c["scenario"].as_str().unwrap_or("");
            let Some((n, s, e)) = SCENARIOS.iter().find(|x| x.0 == name) else { kit::ev::machinery("C37 replay: unknown scenario") };
            let carrier = if c["carrier"] == "Assertion" { Carrier::Assertion } else { Carrier::Stapled };
            let base = baseline(&w, *s);
            println!("replay {n} {carrier:?}: expectation {e:?}; response (base64): {}", pki::b64(&response(&w, n)));
            menu_case(run, &w, n, *s, *e, carrier, &base);
        } else if let Some(seed) = sweep_seed(run, &w) {
            let off = match (c["region"].as_str(), c["rel"].as_u64()) {
                (Some(r), Some(rel)) if r != "open" => seed.regions.iter().find(|x| x.2 == r).map(|x| x.0 + rel as usize),
                _ => c["offset"].as_u64().map(|x| x as usize),
            }
            .unwrap_or(0)
            .min(seed.resp.len() - 1);
            sweep_one(run, &w, &seed, off, c["mask"].as_u64().unwrap_or(1) as u8, &Mutex::new(Stats::default()));
        }
        return;
    }

    let stats = Mutex::new(Stats::default());
    for kind in kinds {
        let w = world(kind);
        let bases: Vec<(Signing, Obs)> = [Signing::D2, Signing::D1Leaf, Signing::D1WithRoot].into_iter().map(|s| (s, baseline(&w, s))).collect();
        run.evals(6);
        let base_of = |s: Signing| bases.iter().find(|b| b.0 == s).map(|b| b.1.clone()).unwrap_or_else(|| kit::ev::machinery("C37: no baseline"));
        let mut menu: Vec<(&str, Signing, Expect, Carrier)> = vec![];
        for (n, s, e) in SCENARIOS {
            menu.push((n, *s, *e, Carrier::Stapled));
            if matches!(*n, "good-cli" | "revoked-kit" | "revoked-cli" | "sibling-certificate-revoked" | "right-certid-foreign-responder" | "other-ca-same-serial-revoked") || n.starts_with("multi-") {
                menu.push((n, *s, *e, Carrier::Assertion));
            }
        }
        run.space(&format!("menu keys={}: (scenario, carrier)", kind.name()), menu.len() as u64, true);
        par::for_each(&menu, |(n, s, e, c)| menu_case(run, &w, n, *s, *e, *c, &base_of(*s)));

        // ---- sweep
        let Some(seed) = sweep_seed(run, &w) else { continue };
        let masks: &[u8] = run.tier.pick(&[0x01u8][..], &[0x01u8, 0x80, 0xFF][..]);
        let n = seed.resp.len();
        run.space(&format!("sweep keys={}: every byte of the {n}-byte stapled 'revoked' response x {} mask(s)", kind.name(), masks.len()), (n * masks.len()) as u64, true);
        run.sample(json!({"sweep_seed": {"keys": kind.name(), "response_bytes": n, "signature_covered_regions": seed.regions.iter().map(|r| json!([r.2, r.0, r.1])).collect::<Vec<_>>(), "without_evidence": seed.base.class()}}));
        let work: Vec<(usize, u8)> = (0..n).flat_map(|o| masks.iter().map(move |m| (o, *m))).collect();
        par::for_each(&work, |(off, mask)| sweep_one(run, &w, &seed, *off, *mask, &stats));
    }
    run.sample(json!({"menu_case": {"scenario": "right-certid-foreign-responder", "carrier": "Stapled", "expect": "same verdict as without evidence"}}));
    let g = stats.lock().unwrap();
    run.extra("open_region_verdict_unchanged", json!(g.open_same));
    run.extra("open_region_verdict_changed_and_openssl_accepts_response", json!(g.open_changed_ossl_accepts));
    run.extra("open_region_verdict_changed_but_openssl_rejects_response", json!(g.open_changed_ossl_rejects));
    run.extra("open_region_verdict_changed_but_openssl_rejects_examples", json!(g.examples));
}

fn sweep_seed(run: &Run, w: &World) -> Option<Seed> {
    let resp = response(w, "revoked-kit");
    let asset = sign(w, Signing::D2, Some((&resp, Carrier::Stapled))).unwrap_or_else(|e| kit::ev::machinery(format!("C37: sweep seed signing: {e}")));
    let at = pki::find(&asset, &resp).unwrap_or_else(|| kit::ev::machinery("C37: stapled response not found in the asset"));
    if pki::find(&asset[at + 1..], &resp).is_some() {
        kit::ev::machinery("C37: stapled response occurs twice");
    }
    let regions = pki::ocsp_regions(&resp).unwrap_or_else(|| kit::ev::machinery("C37: cannot map the kit response"));
    if regions.len() != 4 {
        kit::ev::machinery(format!("C37: response map incomplete {regions:?}"));
    }
    let o = pki::observe(ctx(w), "image/png", &asset).unwrap_or_else(|p| kit::ev::machinery(format!("C37: seed read panics {p}")));
    run.eval();
    if o.ok_state() {
        // the menu already reports this; a sweep over evidence the SDK ignores would be vacuous
        run.extra("sweep_skipped", json!("the unaltered 'revoked' response does not invalidate the manifest"));
        return None;
    }
    // baseline = the same asset with the evidence made unparseable is not available; use a separate signing without evidence
    let base = baseline(w, Signing::D2);
    Some(Seed { asset, at, resp, regions, base })
}

//! C29 — resource files are confined to the manifest directory.
//! S-inp, level `exploration`: every identifier of a traversal grammar x every generated directory tree (symlinks inside /
//! outside the root, dangling, chained) x every public operation that turns an identifier into a file-system access, on the
//! real `c2pa::ResourceStore` (set_base_path), `Builder::add_resource`, `Builder::with_archive` + sign (thumbnail identifier
//! from the archive) and `Reader::to_folder`, in fresh temp directories.
//!
//! Ground truth: the generator records every node it creates in a model file system; a small POSIX path resolver over that
//! model (never the SDK) says where `base.join(id)` really leads. The model is cross-checked against the kernel
//! (`realpath`) for every (tree, id) — disagreement is a machinery failure.
//! Oracle (property text): (1) everything below the temp dir that is not below the manifest root is byte-identical after every
//! operation; (2) no returned / exported / embedded data equals an outside sentinel; (3) `exists` is never true and
//! `path_for_id` never Some for an identifier whose real location is an existing object outside the root.
//!
//! Mutants caught (tools/mutant_run.sh F <diff> C29 quick):
//!  * /verif/mutants/C29-no-canonical-check.diff  (symlink containment step of resolve_within_root dropped)
//!      -> new keys `outside-read op=get|write_stream|archive+sign ...`, `outside-revealed op=exists ...`, `outside-path op=path_for_id ...`
//!  * /verif/mutants/C29-sanitize-allows-parent.diff (sanitize_archive_path lets `..` through)
//!      -> new keys `outside-modified op=add via=dotdot`, `... via=plain`, same for builder.add_resource

use std::{
    collections::BTreeMap,
    io::Cursor,
    path::{Path, PathBuf},
    sync::Mutex,
};

use c2pa::{Builder, ResourceStore};
use kit::{
    fsnap::{self, Node, Snap},
    par, sdk, Run,
};
use serde_json::{json, Value};

// ------------------------------------------------------------------------------------------------
// tree specification
// ------------------------------------------------------------------------------------------------

#[derive(Clone, Copy, PartialEq, Eq, Debug, PartialOrd, Ord)]
enum K {
    Absent,
    File,
    Dir,
    LnInFile,
    LnInDir,
    LnOutFile,
    LnOutDir,
    DangIn,
    DangOut,
    ChainOutFile,
    ChainOutDir,
    ChainBackIn,
}
const KINDS: [K; 12] = [
    K::Absent,
    K::File,
    K::Dir,
    K::LnInFile,
    K::LnInDir,
    K::LnOutFile,
    K::LnOutDir,
    K::DangIn,
    K::DangOut,
    K::ChainOutFile,
    K::ChainOutDir,
    K::ChainBackIn,
];
impl K {
    fn name(self) -> &'static str {
        match self {
            K::Absent => "absent",
            K::File => "file",
            K::Dir => "dir",
            K::LnInFile => "symlink-inside-file",
            K::LnInDir => "symlink-inside-dir",
            K::LnOutFile => "symlink-outside-file",
            K::LnOutDir => "symlink-outside-dir",
            K::DangIn => "dangling-inside",
            K::DangOut => "dangling-outside",
            K::ChainOutFile => "chain-outside-file",
            K::ChainOutDir => "chain-outside-dir",
            K::ChainBackIn => "chain-via-outside-to-inside-file",
        }
    }
    fn parse(s: &str) -> K {
        KINDS.iter().copied().find(|k| k.name() == s).unwrap_or_else(|| kit::ev::machinery(format!("C29: bad kind {s}")))
    }
}

/// One top-level entry (named a or b) of the manifest root; `kids` are the entries a, b inside it when it is a directory.
#[derive(Clone, Copy, PartialEq, Eq, Debug)]
struct Entry {
    kind: K,
    kids: [K; 2],
}
impl Entry {
    fn leaf(kind: K) -> Entry {
        Entry { kind, kids: [K::Absent, K::Absent] }
    }
    fn to_json(&self) -> Value {
        if self.kind == K::Dir {
            json!({"kind": "dir", "a": self.kids[0].name(), "b": self.kids[1].name()})
        } else {
            json!({"kind": self.kind.name()})
        }
    }
    fn from_json(v: &Value) -> Entry {
        let kind = K::parse(v["kind"].as_str().unwrap_or(""));
        if kind == K::Dir {
            Entry { kind, kids: [K::parse(v["a"].as_str().unwrap_or("absent")), K::parse(v["b"].as_str().unwrap_or("absent"))] }
        } else {
            Entry::leaf(kind)
        }
    }
}

#[derive(Clone, Copy, PartialEq, Eq, Debug)]
struct Tree {
    a: Entry,
    b: Entry,
}
impl Tree {
    fn to_json(&self) -> Value {
        json!({"a": self.a.to_json(), "b": self.b.to_json()})
    }
    fn from_json(v: &Value) -> Tree {
        Tree { a: Entry::from_json(&v["a"]), b: Entry::from_json(&v["b"]) }
    }
}

/// All variants of one top-level entry: 11 non-directory kinds + 12x12 directories = 155.
fn entry_variants() -> Vec<Entry> {
    let mut v = vec![];
    for k in KINDS {
        if k == K::Dir {
            for ka in KINDS {
                for kb in KINDS {
                    v.push(Entry { kind: K::Dir, kids: [ka, kb] });
                }
            }
        } else {
            v.push(Entry::leaf(k));
        }
    }
    v
}

// ------------------------------------------------------------------------------------------------
// model file system + materialisation
// ------------------------------------------------------------------------------------------------

#[derive(Clone, Debug, PartialEq, Eq)]
enum M {
    File(Vec<u8>),
    Dir,
    Link(PathBuf),
}

/// The generated world: a temp dir T (canonical absolute path) with
///   T/j1/j2/j3/j4/root        the manifest root (base path)
///   T/j1/j2/j3/j4/outside     the outside directory with sentinels
///   a, b/a at every level above root (so that `..` chains land on existing outside files)
struct World {
    top: PathBuf,
    root: PathBuf,
    outside: PathBuf,
    /// absolute path -> node, for everything below `top`
    model: BTreeMap<PathBuf, M>,
    /// pristine snapshot of `top` without the root sub-tree (paths relative to top), taken right after materialisation
    pristine_out: Snap,
    /// pristine snapshot of the root sub-tree (paths relative to root)
    pristine_root: Snap,
    /// which spec entry created which symlink path (for violation keys)
    link_kind: BTreeMap<PathBuf, K>,
    /// change detector (inotify) armed on every directory of the pristine world; only a trigger for the full comparison
    watch: Option<Watch>,
}

/// inotify on every directory of the world. It never decides anything: an event triggers the full snapshot comparison,
/// and the unconditional comparison at the end of every tree turns a missed event into a machinery failure.
struct Watch {
    fd: i32,
    /// watch descriptor -> directory is outside the manifest root
    outside: BTreeMap<i32, bool>,
}
impl Watch {
    fn new(w: &World) -> Watch {
        let fd = unsafe { libc::inotify_init1(libc::IN_NONBLOCK | libc::IN_CLOEXEC) };
        if fd < 0 {
            kit::ev::machinery(format!("C29: inotify_init1 failed: {}", std::io::Error::last_os_error()));
        }
        let mask = libc::IN_CREATE | libc::IN_DELETE | libc::IN_MODIFY | libc::IN_MOVED_FROM | libc::IN_MOVED_TO | libc::IN_ATTRIB | libc::IN_CLOSE_WRITE | libc::IN_DELETE_SELF | libc::IN_MOVE_SELF | libc::IN_DONT_FOLLOW;
        let mut outside = BTreeMap::new();
        for (p, n) in &w.model {
            if *n != M::Dir {
                continue;
            }
            let c = std::ffi::CString::new(p.to_string_lossy().as_bytes()).unwrap_or_default();
            let wd = unsafe { libc::inotify_add_watch(fd, c.as_ptr(), mask) };
            if wd < 0 {
                kit::ev::machinery(format!("C29: inotify_add_watch {} failed: {}", p.display(), std::io::Error::last_os_error()));
            }
            outside.insert(wd, !p.starts_with(&w.root));
        }
        Watch { fd, outside }
    }
    /// Drain pending events: (something happened outside the root, something happened inside the root)
    fn drain(&self) -> (bool, bool) {
        let mut buf = [0u64; 512];
        let (mut out, mut inn) = (false, false);
        loop {
            let n = unsafe { libc::read(self.fd, buf.as_mut_ptr() as *mut libc::c_void, std::mem::size_of_val(&buf)) };
            if n <= 0 {
                break;
            }
            let bytes = unsafe { std::slice::from_raw_parts(buf.as_ptr() as *const u8, n as usize) };
            let mut off = 0usize;
            while off + 16 <= bytes.len() {
                let wd = i32::from_ne_bytes([bytes[off], bytes[off + 1], bytes[off + 2], bytes[off + 3]]);
                let mask = u32::from_ne_bytes([bytes[off + 4], bytes[off + 5], bytes[off + 6], bytes[off + 7]]);
                let len = u32::from_ne_bytes([bytes[off + 12], bytes[off + 13], bytes[off + 14], bytes[off + 15]]) as usize;
                off += 16 + len;
                if mask & libc::IN_Q_OVERFLOW != 0 {
                    out = true;
                    inn = true;
                    continue;
                }
                if mask & libc::IN_IGNORED != 0 {
                    continue;
                }
                match self.outside.get(&wd) {
                    Some(true) => out = true,
                    Some(false) => inn = true,
                    None => {
                        out = true;
                        inn = true;
                    }
                }
            }
        }
        (out, inn)
    }
}
impl Drop for Watch {
    fn drop(&mut self) {
        unsafe {
            libc::close(self.fd);
        }
    }
}

const ROOT_REL: &str = "j1/j2/j3/j4/root";

fn sentinel(tag: &str) -> Vec<u8> {
    format!("VERIF-SENTINEL-{tag}-7f3a9c").into_bytes()
}

impl World {
    fn is_outside_sentinel(&self, data: &[u8]) -> Option<String> {
        if !data.starts_with(b"VERIF-SENTINEL-OUT") {
            return None;
        }
        Some(String::from_utf8_lossy(data).into_owned())
    }
    fn contains_outside_sentinel(&self, data: &[u8]) -> bool {
        let needle = b"VERIF-SENTINEL-OUT";
        data.windows(needle.len()).any(|w| w == needle)
    }
}

struct Maker<'a> {
    top: PathBuf,
    model: &'a mut BTreeMap<PathBuf, M>,
    link_kind: &'a mut BTreeMap<PathBuf, K>,
}
impl Maker<'_> {
    fn dir(&mut self, p: &Path) {
        std::fs::create_dir_all(p).unwrap_or_else(|e| kit::ev::machinery(format!("mkdir {}: {e}", p.display())));
        // record every component below top
        let mut cur = PathBuf::new();
        for c in p.components() {
            cur.push(c);
            if cur.starts_with(&self.top) && !self.model.contains_key(&cur) {
                self.model.insert(cur.clone(), M::Dir);
            }
        }
    }
    fn file(&mut self, p: &Path, data: Vec<u8>) {
        std::fs::write(p, &data).unwrap_or_else(|e| kit::ev::machinery(format!("write {}: {e}", p.display())));
        self.model.insert(p.to_path_buf(), M::File(data));
    }
    fn link(&mut self, p: &Path, target: &Path, kind: Option<K>) {
        std::os::unix::fs::symlink(target, p).unwrap_or_else(|e| kit::ev::machinery(format!("symlink {}: {e}", p.display())));
        self.model.insert(p.to_path_buf(), M::Link(target.to_path_buf()));
        if let Some(k) = kind {
            self.link_kind.insert(p.to_path_buf(), k);
        }
    }
}

/// Create the fixed part of the world (everything except root/a and root/b).
fn make_world(top: &Path) -> World {
    let top = top.canonicalize().unwrap_or_else(|e| kit::ev::machinery(format!("canonicalize temp dir: {e}")));
    let mut model = BTreeMap::new();
    model.insert(top.clone(), M::Dir);
    let root = top.join(ROOT_REL);
    let outside = top.join("j1/j2/j3/j4/outside");
    let mut w = World { top, root, outside, model, pristine_out: Snap::new(), pristine_root: Snap::new(), link_kind: BTreeMap::new(), watch: None };
    make_outside(&mut w);
    make_root_fixed(&mut w);
    w
}

fn make_outside(w: &mut World) {
    let (outside, root) = (w.outside.clone(), w.root.clone());
    let mut mk = Maker { top: w.top.clone(), model: &mut w.model, link_kind: &mut w.link_kind };
    mk.dir(&outside.join("sub/b"));
    mk.file(&outside.join("secret.txt"), sentinel("OUT-secret"));
    mk.file(&outside.join("sub/a"), sentinel("OUT-sub-a"));
    mk.file(&outside.join("sub/b/a"), sentinel("OUT-sub-b-a"));
    // names a, b also directly in outside/, so that `a/..`-style identifiers through a link to outside/sub land on existing objects
    mk.file(&outside.join("a"), sentinel("OUT-a"));
    mk.dir(&outside.join("b"));
    mk.file(&outside.join("b/a"), sentinel("OUT-b-a"));
    mk.link(&outside.join("hop_in"), Path::new("../root/t/f"), None);
    // a (file) and b/a at each of the three levels above root
    let mut lvl = root.parent().map(|p| p.to_path_buf()).unwrap_or_default();
    for i in 1..=3 {
        mk.file(&lvl.join("a"), sentinel(&format!("OUT-up{i}-a")));
        mk.dir(&lvl.join("b"));
        mk.file(&lvl.join("b/a"), sentinel(&format!("OUT-up{i}-b-a")));
        lvl = lvl.parent().map(|p| p.to_path_buf()).unwrap_or_default();
    }
}

fn make_root_fixed(w: &mut World) {
    let root = w.root.clone();
    let mut mk = Maker { top: w.top.clone(), model: &mut w.model, link_kind: &mut w.link_kind };
    mk.dir(&root.join("t/d/b"));
    mk.file(&root.join("t/f"), sentinel("IN-t-f"));
    mk.file(&root.join("t/d/a"), sentinel("IN-t-d-a"));
    mk.link(&root.join("t/hop_of"), Path::new("../../outside/secret.txt"), None);
    mk.link(&root.join("t/hop_od"), Path::new("../../outside/sub"), None);
}

/// Remove root/a and root/b (whatever they are now) from disk and model.
fn clear_entries(w: &mut World) {
    for n in ["a", "b"] {
        let p = w.root.join(n);
        if let Ok(md) = std::fs::symlink_metadata(&p) {
            let r = if md.is_dir() { std::fs::remove_dir_all(&p) } else { std::fs::remove_file(&p) };
            r.unwrap_or_else(|e| kit::ev::machinery(format!("cleanup {}: {e}", p.display())));
        }
        let keys: Vec<PathBuf> = w.model.keys().filter(|k| k.starts_with(&p)).cloned().collect();
        for k in keys {
            w.model.remove(&k);
            w.link_kind.remove(&k);
        }
    }
}

fn make_entry(w: &mut World, at: &Path, kind: K, depth: usize, tag: &str) {
    // depth-1 entries use relative link targets, depth-2 entries absolute ones (both styles are covered)
    let outside = w.outside.clone();
    let root = w.root.clone();
    let rel_up = if depth == 1 { PathBuf::from("..") } else { PathBuf::new() };
    let tgt = |inside: bool, tail: &str| -> PathBuf {
        if depth == 1 {
            if inside {
                PathBuf::from(tail)
            } else {
                rel_up.join("outside").join(tail)
            }
        } else if inside {
            root.join(tail)
        } else {
            outside.join(tail)
        }
    };
    let mut mk = Maker { top: w.top.clone(), model: &mut w.model, link_kind: &mut w.link_kind };
    match kind {
        K::Absent => {}
        K::File => mk.file(at, sentinel(&format!("IN-{tag}"))),
        K::Dir => mk.dir(at),
        K::LnInFile => mk.link(at, &tgt(true, "t/f"), Some(kind)),
        K::LnInDir => mk.link(at, &tgt(true, "t/d"), Some(kind)),
        K::LnOutFile => mk.link(at, &tgt(false, "secret.txt"), Some(kind)),
        K::LnOutDir => mk.link(at, &tgt(false, "sub"), Some(kind)),
        K::DangIn => mk.link(at, &tgt(true, "t/ghost"), Some(kind)),
        K::DangOut => mk.link(at, &tgt(false, "ghost"), Some(kind)),
        K::ChainOutFile => mk.link(at, &tgt(true, "t/hop_of"), Some(kind)),
        K::ChainOutDir => mk.link(at, &tgt(true, "t/hop_od"), Some(kind)),
        K::ChainBackIn => mk.link(at, &tgt(false, "hop_in"), Some(kind)),
    }
}

/// Put `tree` into the world (root/a, root/b) and take the pristine snapshot.
fn set_tree(w: &mut World, tree: &Tree) {
    clear_entries(w);
    for (name, e) in [("a", tree.a), ("b", tree.b)] {
        let p = w.root.join(name);
        make_entry(w, &p, e.kind, 1, name);
        if e.kind == K::Dir {
            for (kn, kk) in [("a", e.kids[0]), ("b", e.kids[1])] {
                let kp = p.join(kn);
                make_entry(w, &kp, kk, 2, &format!("{name}-{kn}"));
            }
        }
    }
    w.pristine_out = fsnap::snapshot_skip(&w.top, &[Path::new(ROOT_REL)]);
    w.pristine_root = fsnap::snapshot(&w.root);
    // the model and the disk must agree exactly (generator self-check)
    let mut from_model_out = Snap::new();
    let mut from_model_root = Snap::new();
    for (p, n) in &w.model {
        if p == &w.top || p == &w.root {
            continue;
        }
        let node = match n {
            M::File(d) => Node::File(d.clone()),
            M::Dir => Node::Dir,
            M::Link(t) => Node::Symlink(t.clone()),
        };
        if let Ok(rel) = p.strip_prefix(&w.root) {
            from_model_root.insert(rel.to_path_buf(), node);
        } else {
            from_model_out.insert(p.strip_prefix(&w.top).unwrap_or(p).to_path_buf(), node);
        }
    }
    if from_model_out != w.pristine_out || from_model_root != w.pristine_root {
        kit::ev::machinery(format!(
            "C29: generated tree and model disagree: outside {:?} root {:?}",
            fsnap::diff(&from_model_out, &w.pristine_out),
            fsnap::diff(&from_model_root, &w.pristine_root)
        ));
    }
    w.watch = None;
    w.watch = Some(Watch::new(w));
}

/// Restore the pristine state after an operation changed something (only the manifest root when `outside_too` is false).
fn restore(w: &mut World, tree: &Tree, outside_too: bool) {
    let rm = |p: &Path| {
        let r = match std::fs::symlink_metadata(p) {
            Ok(md) if md.is_dir() => std::fs::remove_dir_all(p),
            Ok(_) => std::fs::remove_file(p),
            Err(_) => Ok(()),
        };
        r.unwrap_or_else(|e| kit::ev::machinery(format!("restore: {e}")));
    };
    if outside_too {
        for ent in std::fs::read_dir(&w.top).into_iter().flatten().flatten() {
            rm(&ent.path());
        }
        let top = w.top.clone();
        *w = make_world(&top);
    } else {
        rm(&w.root);
        let root = w.root.clone();
        let keys: Vec<PathBuf> = w.model.keys().filter(|k| k.starts_with(&root)).cloned().collect();
        for k in keys {
            w.model.remove(&k);
            w.link_kind.remove(&k);
        }
        let mut mk = Maker { top: w.top.clone(), model: &mut w.model, link_kind: &mut w.link_kind };
        mk.dir(&root);
        make_root_fixed(w);
    }
    set_tree(w, tree);
}

// ------------------------------------------------------------------------------------------------
// model path resolution (POSIX semantics over the model; never calls the SDK)
// ------------------------------------------------------------------------------------------------

#[derive(Clone, Debug, PartialEq, Eq)]
enum Res {
    /// the path denotes an existing object at `real`
    Exists { real: PathBuf, is_dir: bool },
    /// every component but the last resolves; the object would be created at `real`
    Missing { real: PathBuf },
    /// an intermediate component is missing / not a directory / a loop
    Broken,
    /// resolution left the generated world (absolute path elsewhere): not modelled
    Unknown,
}

struct Resolution {
    res: Res,
    /// symlinks followed, in order
    hops: Vec<PathBuf>,
    used_dotdot: bool,
    absolute: bool,
}

fn resolve(w: &World, base: &Path, id: &str) -> Resolution {
    use std::collections::VecDeque;
    let absolute = id.starts_with('/');
    // what Path::join does with the string: absolute ids replace the base, otherwise base + "/" + id
    let mut cur: PathBuf = if absolute { PathBuf::from("/") } else { base.to_path_buf() };
    let mut queue: VecDeque<String> = id.split('/').map(|s| s.to_string()).collect();
    let mut hops = vec![];
    let mut used_dotdot = false;
    let mut budget = 40;
    let known_dir = |p: &Path| -> Option<bool> {
        // ancestors of top are real directories; below top the model decides; elsewhere unknown
        if w.top.starts_with(p) {
            return Some(true);
        }
        if p.starts_with(&w.top) {
            return Some(matches!(w.model.get(p), Some(M::Dir)));
        }
        None
    };
    let mut last_was_file: Option<PathBuf> = None;
    while let Some(comp) = queue.pop_front() {
        if let Some(f) = &last_was_file {
            // something follows a regular file: "" and "." also require a directory
            let _ = f;
            return Resolution { res: Res::Broken, hops, used_dotdot, absolute };
        }
        if comp.is_empty() || comp == "." {
            continue;
        }
        if comp == ".." {
            used_dotdot = true;
            if let Some(p) = cur.parent() {
                cur = p.to_path_buf();
            }
            continue;
        }
        let next = cur.join(&comp);
        if !next.starts_with(&w.top) {
            if w.top.starts_with(&next) {
                cur = next; // walking down an ancestor of top
                continue;
            }
            return Resolution { res: Res::Unknown, hops, used_dotdot, absolute };
        }
        match w.model.get(&next) {
            Some(M::Dir) => cur = next,
            Some(M::File(_)) => {
                last_was_file = Some(next.clone());
                cur = next;
            }
            Some(M::Link(t)) => {
                budget -= 1;
                if budget == 0 {
                    return Resolution { res: Res::Broken, hops, used_dotdot, absolute };
                }
                hops.push(next.clone());
                let ts = t.to_string_lossy().into_owned();
                if ts.starts_with('/') {
                    cur = PathBuf::from("/");
                }
                for (i, c) in ts.split('/').enumerate().collect::<Vec<_>>().into_iter().rev() {
                    let _ = i;
                    queue.push_front(c.to_string());
                }
            }
            None => {
                // missing: fine only if nothing but ""/"." follows... POSIX: a trailing slash on a missing name is still ENOENT
                let rest_nonempty = queue.iter().any(|c| !(c.is_empty() || c == "."));
                if rest_nonempty || known_dir(&cur) != Some(true) {
                    return Resolution { res: Res::Broken, hops, used_dotdot, absolute };
                }
                return Resolution { res: Res::Missing { real: next }, hops, used_dotdot, absolute };
            }
        }
    }
    let is_dir = last_was_file.is_none();
    if !cur.starts_with(&w.top) && !w.top.starts_with(&cur) {
        return Resolution { res: Res::Unknown, hops, used_dotdot, absolute };
    }
    Resolution { res: Res::Exists { real: cur, is_dir }, hops, used_dotdot, absolute }
}

impl Resolution {
    /// real location (existing or to-be-created) lies outside the manifest root
    fn outside(&self, w: &World) -> bool {
        match &self.res {
            Res::Exists { real, .. } | Res::Missing { real } => !real.starts_with(&w.root),
            Res::Unknown => true,
            Res::Broken => false,
        }
    }
    fn existing_outside(&self, w: &World) -> bool {
        matches!(&self.res, Res::Exists { real, .. } if !real.starts_with(&w.root))
    }
    /// how the identifier gets out (for violation keys)
    fn via(&self, w: &World) -> String {
        if let Some(h) = self.hops.first() {
            let k = w.link_kind.get(h).map(|k| k.name()).unwrap_or("fixed-link");
            let depth = h.strip_prefix(&w.root).map(|r| r.components().count()).unwrap_or(0);
            format!("{k}@depth{depth}")
        } else if self.absolute {
            "absolute".into()
        } else if self.used_dotdot {
            "dotdot".into()
        } else {
            "plain".into()
        }
    }
}

// ------------------------------------------------------------------------------------------------
// identifiers
// ------------------------------------------------------------------------------------------------

fn alphabet(w: &World) -> Vec<String> {
    vec![
        "a".into(),
        "b".into(),
        "..".into(),
        ".".into(),
        "".into(),
        "a\\..".into(),
        "%2e%2e".into(),
        "..%2f".into(),
        w.outside.join("secret.txt").to_string_lossy().into_owned(), // "/abs": absolute path of an outside file
    ]
}
const ALPHA_NAMES: [&str; 9] = ["a", "b", "..", ".", "", "a\\..", "%2e%2e", "..%2f", "/abs"];

/// all segment index vectors of length 1..=max over an alphabet of n symbols
fn id_vectors(n: usize, max: usize) -> Vec<Vec<usize>> {
    let mut out = vec![];
    let mut level: Vec<Vec<usize>> = vec![vec![]];
    for _ in 0..max {
        let mut next = vec![];
        for p in &level {
            for s in 0..n {
                let mut q = p.clone();
                q.push(s);
                next.push(q);
            }
        }
        out.extend(next.iter().cloned());
        level = next;
    }
    out
}

fn id_string(alpha: &[String], v: &[usize]) -> String {
    v.iter().map(|i| alpha[*i].as_str()).collect::<Vec<_>>().join("/")
}
fn id_symbolic(v: &[usize]) -> String {
    v.iter().map(|i| ALPHA_NAMES[*i]).collect::<Vec<_>>().join("/")
}

// ------------------------------------------------------------------------------------------------
// operations
// ------------------------------------------------------------------------------------------------

const ADDED: &[u8] = b"VERIF-ADDED-BY-HARNESS";
/// cumulative time per op (index into OPS) plus [7] = file-system checks/restores, for the cost report in the evidence
static OP_NS: [std::sync::atomic::AtomicU64; 8] = [const { std::sync::atomic::AtomicU64::new(0) }; 8];
const OPS: [&str; 7] = ["get", "write_stream", "exists", "path_for_id", "add", "builder.add_resource", "archive+sign"];

fn store(w: &World) -> ResourceStore {
    let mut s = ResourceStore::new();
    s.set_base_path(&w.root);
    s
}

/// Minimal ZIP writer (stored entries) so that hostile entry names can be produced byte for byte.
fn zip_bytes(entries: &[(&str, &[u8])]) -> Vec<u8> {
    let mut out = vec![];
    let mut central = vec![];
    for (name, data) in entries {
        let off = out.len() as u32;
        let crc = kit::assets::crc32(data);
        let n = name.as_bytes();
        let mut lh = vec![];
        lh.extend_from_slice(&0x04034b50u32.to_le_bytes());
        lh.extend_from_slice(&20u16.to_le_bytes()); // version needed
        lh.extend_from_slice(&0u16.to_le_bytes()); // flags
        lh.extend_from_slice(&0u16.to_le_bytes()); // stored
        lh.extend_from_slice(&0u16.to_le_bytes()); // time
        lh.extend_from_slice(&0x21u16.to_le_bytes()); // date 1980-01-01
        lh.extend_from_slice(&crc.to_le_bytes());
        lh.extend_from_slice(&(data.len() as u32).to_le_bytes());
        lh.extend_from_slice(&(data.len() as u32).to_le_bytes());
        lh.extend_from_slice(&(n.len() as u16).to_le_bytes());
        lh.extend_from_slice(&0u16.to_le_bytes());
        out.extend_from_slice(&lh);
        out.extend_from_slice(n);
        out.extend_from_slice(data);
        let mut ch = vec![];
        ch.extend_from_slice(&0x02014b50u32.to_le_bytes());
        ch.extend_from_slice(&20u16.to_le_bytes()); // made by
        ch.extend_from_slice(&20u16.to_le_bytes()); // needed
        ch.extend_from_slice(&0u16.to_le_bytes());
        ch.extend_from_slice(&0u16.to_le_bytes());
        ch.extend_from_slice(&0u16.to_le_bytes());
        ch.extend_from_slice(&0x21u16.to_le_bytes());
        ch.extend_from_slice(&crc.to_le_bytes());
        ch.extend_from_slice(&(data.len() as u32).to_le_bytes());
        ch.extend_from_slice(&(data.len() as u32).to_le_bytes());
        ch.extend_from_slice(&(n.len() as u16).to_le_bytes());
        ch.extend_from_slice(&0u16.to_le_bytes()); // extra
        ch.extend_from_slice(&0u16.to_le_bytes()); // comment
        ch.extend_from_slice(&0u16.to_le_bytes()); // disk
        ch.extend_from_slice(&0u16.to_le_bytes()); // int attr
        ch.extend_from_slice(&0u32.to_le_bytes()); // ext attr
        ch.extend_from_slice(&off.to_le_bytes());
        ch.extend_from_slice(n);
        central.extend_from_slice(&ch);
    }
    let cd_off = out.len() as u32;
    out.extend_from_slice(&central);
    out.extend_from_slice(&0x06054b50u32.to_le_bytes());
    out.extend_from_slice(&0u16.to_le_bytes());
    out.extend_from_slice(&0u16.to_le_bytes());
    out.extend_from_slice(&(entries.len() as u16).to_le_bytes());
    out.extend_from_slice(&(entries.len() as u16).to_le_bytes());
    out.extend_from_slice(&(central.len() as u32).to_le_bytes());
    out.extend_from_slice(&cd_off.to_le_bytes());
    out.extend_from_slice(&0u16.to_le_bytes());
    out
}

/// Builder archive (legacy zip layout) whose manifest names `id` as the claim thumbnail and asks for a hostile base_path.
fn archive_for(w: &World, id: &str, with_resource_entry: bool) -> Vec<u8> {
    let manifest = json!({
        "title": "verif-c29", "format": "", "instance_id": "",
        "claim_generator_info": [{"name": "verif", "version": "1"}],
        "thumbnail": {"format": "image/jpeg", "identifier": id},
        "ingredients": [], "assertions": [], "no_embed": false, "timestamp_manifest_labels": [],
        "base_path": w.outside.to_string_lossy(),
    })
    .to_string();
    let res_name = format!("resources/{id}");
    let mut entries: Vec<(&str, &[u8])> = vec![("version.txt", b"1"), ("manifest.json", manifest.as_bytes()), ("resources/", b""), ("manifests/", b"")];
    if with_resource_entry {
        entries.push((&res_name, ADDED));
    }
    zip_bytes(&entries)
}

#[derive(Default)]
struct Obs {
    /// outcome class per op
    classes: Vec<(String, String)>,
    /// (key, what)
    violations: Vec<(String, String, String)>, // key, what, op
    changed_root: bool,
}

fn short_err(e: &c2pa::Error) -> String {
    sdk::err_kind(e)
}

/// What differs from the pristine world.
#[derive(Default)]
struct Changes {
    /// differences outside the manifest root (human readable)
    outside: Vec<String>,
    /// current snapshot of the outside part, when it differs
    out_now: Option<Snap>,
    /// current snapshot of the root, when it differs
    root_now: Option<Snap>,
}
impl Changes {
    fn any(&self) -> bool {
        self.out_now.is_some() || self.root_now.is_some()
    }
    fn root_changed(&self) -> bool {
        self.root_now.is_some()
    }
}

/// Compare (parts of) the world with the pristine snapshots.
fn check_fs(w: &World, outside: bool, root: bool) -> Changes {
    let mut c = Changes::default();
    if outside {
        let now = fsnap::snapshot_skip(&w.top, &[Path::new(ROOT_REL)]);
        if now != w.pristine_out {
            c.outside = fsnap::diff(&w.pristine_out, &now);
            c.out_now = Some(now);
        }
    }
    if root {
        let now = fsnap::snapshot(&w.root);
        if now != w.pristine_root {
            c.root_now = Some(now);
        }
    }
    c
}

/// Cheap version: a comparison only runs for the part in which the change detector saw an event.
fn check_fs_quick(w: &World) -> Changes {
    match &w.watch {
        Some(wt) => {
            let (o, i) = wt.drain();
            if !o && !i {
                return Changes::default();
            }
            check_fs(w, o, i)
        }
        None => check_fs(w, true, true),
    }
}

/// Undo additions and content changes below `base`; false when something else happened (removed / retyped paths).
fn undo(base: &Path, pristine: &Snap, now: &Snap) -> bool {
    let mut ok = true;
    let mut added: Vec<&PathBuf> = now.keys().filter(|p| !pristine.contains_key(*p)).collect();
    added.sort_by_key(|p| std::cmp::Reverse(p.components().count()));
    for p in added {
        let abs = base.join(p);
        let r = match now.get(p) {
            Some(Node::Dir) => std::fs::remove_dir(&abs),
            _ => std::fs::remove_file(&abs),
        };
        ok &= r.is_ok();
    }
    for (p, n) in pristine {
        match (n, now.get(p)) {
            (_, Some(m)) if m == n => {}
            (Node::File(data), Some(Node::File(_))) => ok &= std::fs::write(base.join(p), data).is_ok(),
            _ => ok = false,
        }
    }
    ok
}

/// Bring the world back to the pristine snapshots (cheaply when possible, else by rebuilding it).
fn repair(w: &mut World, tree: &Tree, ch: &Changes) {
    let mut ok = true;
    if let Some(now) = &ch.out_now {
        ok &= undo(&w.top, &w.pristine_out, now);
    }
    if let Some(now) = &ch.root_now {
        ok &= undo(&w.root, &w.pristine_root, now);
    }
    if !ok {
        restore(w, tree, true);
        return;
    }
    if let Some(wt) = &w.watch {
        wt.drain();
    }
}

/// paths outside the generated world that an absolute identifier such as "/a" could create
fn stray_roots_present() -> Vec<&'static str> {
    ["/a", "/b", "/..%2f", "/%2e%2e", "/a\\.."].into_iter().filter(|p| std::fs::symlink_metadata(p).is_ok()).collect()
}

fn run_op(w: &World, op: &str, id: &str, r: &Resolution, signer: &dyn c2pa::Signer, png: &[u8], obs: &mut Obs) {
    let via = r.via(w);
    let mut viol = |key: String, what: String| obs.violations.push((key, what, op.to_string()));
    let class: String = match op {
        "get" => match par::guard(|| store(w).get(id).map(|c| c.into_owned())) {
            Err(p) => {
                viol(format!("panic op=get via={via}"), format!("get({id:?}) panicked: {p}"));
                "panic".into()
            }
            Ok(Ok(data)) => {
                if let Some(s) = w.is_outside_sentinel(&data) {
                    viol(format!("outside-read op=get via={via}"), format!("get({id:?}) returned the content of an outside file ({s})"));
                    "ok-OUTSIDE".into()
                } else {
                    "ok".into()
                }
            }
            Ok(Err(e)) => format!("err:{}", short_err(&e)),
        },
        "write_stream" => {
            let mut buf = Cursor::new(Vec::new());
            match par::guard(|| store(w).write_stream(id, &mut buf)) {
                Err(p) => {
                    viol(format!("panic op=write_stream via={via}"), format!("write_stream({id:?}) panicked: {p}"));
                    "panic".into()
                }
                Ok(Ok(_)) => {
                    if let Some(s) = w.is_outside_sentinel(buf.get_ref()) {
                        viol(format!("outside-read op=write_stream via={via}"), format!("write_stream({id:?}) copied an outside file ({s})"));
                        "ok-OUTSIDE".into()
                    } else {
                        "ok".into()
                    }
                }
                Ok(Err(e)) => format!("err:{}", short_err(&e)),
            }
        }
        "exists" => match par::guard(|| store(w).exists(id)) {
            Err(p) => {
                viol(format!("panic op=exists via={via}"), format!("exists({id:?}) panicked: {p}"));
                "panic".into()
            }
            Ok(true) => {
                if r.existing_outside(w) {
                    viol(format!("outside-revealed op=exists via={via}"), format!("exists({id:?}) is true for an object whose real location {:?} is outside the root", r.res));
                    "true-OUTSIDE".into()
                } else {
                    "true".into()
                }
            }
            Ok(false) => "false".into(),
        },
        "path_for_id" => match par::guard(|| store(w).path_for_id(id)) {
            Err(p) => {
                viol(format!("panic op=path_for_id via={via}"), format!("path_for_id({id:?}) panicked: {p}"));
                "panic".into()
            }
            Ok(Some(p)) => {
                if r.existing_outside(w) {
                    viol(format!("outside-path op=path_for_id via={via}"), format!("path_for_id({id:?}) = {p:?} although its real location {:?} is outside the root", r.res));
                    "some-OUTSIDE".into()
                } else if r.outside(w) {
                    "some(nonexistent-outside-target)".into()
                } else {
                    "some".into()
                }
            }
            Ok(None) => "none".into(),
        },
        "add" => match par::guard(|| store(w).add(id, ADDED.to_vec()).map(|_| ())) {
            Err(p) => {
                viol(format!("panic op=add via={via}"), format!("add({id:?}) panicked: {p}"));
                "panic".into()
            }
            Ok(Ok(())) => "ok".into(),
            Ok(Err(e)) => format!("err:{}", short_err(&e)),
        },
        "builder.add_resource" => {
            let res = par::guard(|| {
                let mut b = Builder::from_context(sdk::ctx());
                b.set_base_path(&w.root);
                b.add_resource(id, Cursor::new(ADDED.to_vec())).map(|_| ())
            });
            match res {
                Err(p) => {
                    viol(format!("panic op=builder.add_resource via={via}"), format!("add_resource({id:?}) panicked: {p}"));
                    "panic".into()
                }
                Ok(Ok(())) => "ok".into(),
                Ok(Err(e)) => format!("err:{}", short_err(&e)),
            }
        }
        "archive+sign" => {
            let zip = archive_for(w, id, false);
            let res = par::guard(|| -> c2pa::Result<Vec<u8>> {
                let mut b = Builder::from_context(sdk::ctx()).with_archive(Cursor::new(zip))?;
                b.set_base_path(&w.root);
                b.set_intent(c2pa::BuilderIntent::Edit);
                let mut dst = Cursor::new(Vec::new());
                b.sign(signer, "image/png", &mut Cursor::new(png), &mut dst)?;
                Ok(dst.into_inner())
            });
            match res {
                Err(p) => {
                    viol(format!("panic op=archive+sign via={via}"), format!("with_archive/sign with thumbnail id {id:?} panicked: {p}"));
                    "panic".into()
                }
                Ok(Ok(bytes)) => {
                    if w.contains_outside_sentinel(&bytes) {
                        viol(
                            format!("outside-read op=archive+sign via={via}"),
                            format!("a builder archive naming thumbnail {id:?} made sign() embed an outside file into the signed asset"),
                        );
                        "ok-OUTSIDE".into()
                    } else {
                        "ok".into()
                    }
                }
                Ok(Err(e)) => format!("err:{}", short_err(&e)),
            }
        }
        _ => kit::ev::machinery(format!("C29: unknown op {op}")),
    };
    obs.classes.push((op.to_string(), class));
}

/// Run every op for one (tree, id); restores the world when something changed.
fn run_id(w: &mut World, tree: &Tree, id: &str, ops: &[&str], signer: &dyn c2pa::Signer, png: &[u8]) -> (Obs, Resolution) {
    let base = w.root.clone();
    let r = resolve(w, &base, id);
    // model vs kernel (the kernel is not the SDK): realpath must agree with the model whenever the model has an opinion
    if r.res != Res::Unknown {
        let joined = if id.starts_with('/') { PathBuf::from(id) } else { PathBuf::from(format!("{}/{}", base.display(), id)) };
        let k = std::fs::canonicalize(&joined);
        match (&r.res, &k) {
            (Res::Exists { real, .. }, Ok(kp)) if real == kp => {}
            (Res::Missing { .. } | Res::Broken, Err(_)) => {}
            _ => kit::ev::machinery(format!("C29: model resolver and kernel disagree on {joined:?} in tree {}: model {:?}, kernel {:?}", tree.to_json(), r.res, k)),
        }
    }
    let mut obs = Obs::default();
    let mut reads_done = false;
    for op in ops {
        let mutating = matches!(*op, "add" | "builder.add_resource" | "archive+sign");
        if mutating && !reads_done {
            // one file-system comparison for the read-only batch
            reads_done = true;
            let ch = check_fs_quick(w);
            if ch.any() {
                obs.violations.push((
                    format!("fs-modified op=read-batch via={}", r.via(w)),
                    format!("a read-only operation (get/write_stream/exists/path_for_id) on {id:?} changed the file system: outside {:?}, root changed {}", ch.outside, ch.root_changed()),
                    "read-batch".into(),
                ));
                repair(w, tree, &ch);
            }
        }
        let t0 = std::time::Instant::now();
        run_op(w, op, id, &r, signer, png, &mut obs);
        if let Some(i) = OPS.iter().position(|o| o == op) {
            OP_NS[i].fetch_add(t0.elapsed().as_nanos() as u64, std::sync::atomic::Ordering::Relaxed);
        }
        let t1 = std::time::Instant::now();
        let _fs_timer = FsTimer(t1);
        if mutating {
            let ch = check_fs_quick(w);
            let out = &ch.outside;
            let stray = if id.starts_with('/') { stray_roots_present() } else { vec![] };
            if !out.is_empty() || !stray.is_empty() {
                obs.violations.push((
                    format!("outside-modified op={op} via={}", r.via(w)),
                    format!("{op}({id:?}) changed the file system outside the manifest root: {out:?} {stray:?} (model: real location {:?})", r.res),
                    op.to_string(),
                ));
                for s in stray {
                    let _ = std::fs::remove_dir_all(s).or_else(|_| std::fs::remove_file(s));
                }
                if let Some(c) = obs.classes.last_mut() {
                    c.1 = format!("{}-OUTSIDE-MODIFIED", c.1);
                }
            }
            if ch.any() {
                obs.changed_root |= ch.root_changed();
                repair(w, tree, &ch);
            }
        }
    }
    (obs, r)
}

struct FsTimer(std::time::Instant);
impl Drop for FsTimer {
    fn drop(&mut self) {
        OP_NS[7].fetch_add(self.0.elapsed().as_nanos() as u64, std::sync::atomic::Ordering::Relaxed);
    }
}

fn case_json(family: &str, tree: &Tree, idv: &[usize], op: &str) -> Value {
    json!({"family": family, "tree": tree.to_json(), "id_segments": idv, "id": id_symbolic(idv), "op": op})
}

/// Where the temp trees live: $VERIF_TMP, else /dev/shm when it is a usable tmpfs (hundreds of thousands of create/unlink
/// operations are an order of magnitude cheaper there than on the journalled /tmp), else /tmp. Always removed afterwards.
fn tmp_base() -> PathBuf {
    if let Ok(p) = std::env::var("VERIF_TMP") {
        return PathBuf::from(p);
    }
    let shm = Path::new("/dev/shm");
    if shm.is_dir() && tempfile::Builder::new().prefix("verif-probe-").tempdir_in(shm).is_ok() {
        return shm.to_path_buf();
    }
    PathBuf::from("/tmp")
}

fn new_top() -> tempfile::TempDir {
    tempfile::Builder::new().prefix("verif-c29-").tempdir_in(tmp_base()).unwrap_or_else(|e| kit::ev::machinery(format!("tempdir: {e}")))
}

// ------------------------------------------------------------------------------------------------
// Reader::to_folder family
// ------------------------------------------------------------------------------------------------

struct Export {
    signed: Vec<u8>,
    /// relative paths to_folder writes into an empty directory (files), discovered at start-up
    files: Vec<PathBuf>,
    /// every position (file or intermediate directory) that can be pre-populated
    positions: Vec<PathBuf>,
}

fn export_seed(signer: &dyn c2pa::Signer, png: &[u8]) -> Export {
    // an asset with a claim thumbnail, so that to_folder has a binary resource to export
    let def = r#"{"title":"verif-c29","claim_generator_info":[{"name":"verif","version":"1"}],"thumbnail":{"format":"image/jpeg","identifier":"thumb.jpg"}}"#;
    let mut b = sdk::builder(sdk::ctx(), def);
    b.add_resource("thumb.jpg", Cursor::new(sentinel("IN-thumbnail")))
        .unwrap_or_else(|e| kit::ev::machinery(format!("C29 to_folder seed: add_resource: {e:?}")));
    let (signed, _) = sdk::sign(&mut b, signer, "image/png", png).unwrap_or_else(|e| kit::ev::machinery(format!("C29 to_folder seed: sign: {e:?}")));
    let top = new_top();
    let dir = top.path().join("export");
    let rd = sdk::read(sdk::ctx(), "image/png", &signed).unwrap_or_else(|e| kit::ev::machinery(format!("C29 to_folder seed unreadable: {e:?}")));
    rd.to_folder(&dir).unwrap_or_else(|e| kit::ev::machinery(format!("C29 to_folder into an empty dir fails: {e:?}")));
    let snap = fsnap::snapshot(&dir);
    let files: Vec<PathBuf> = snap.iter().filter(|(_, n)| matches!(n, Node::File(_))).map(|(p, _)| p.clone()).collect();
    let mut positions: Vec<PathBuf> = snap.keys().cloned().collect();
    positions.sort();
    if files.len() < 3 {
        kit::ev::machinery(format!("C29: to_folder wrote only {files:?}; expected reports plus a thumbnail"));
    }
    Export { signed, files, positions }
}

/// what is put at a position of the export folder before to_folder runs
#[derive(Clone, Copy, PartialEq, Eq, Debug)]
enum Pk {
    LnOutFile,
    LnOutDir,
    DangOut,
    LnInFile,
    LnInDir,
    ChainOutFile,
    ChainOutDir,
    File,
    Dir,
}
const PKS: [Pk; 9] = [Pk::LnOutFile, Pk::LnOutDir, Pk::DangOut, Pk::LnInFile, Pk::LnInDir, Pk::ChainOutFile, Pk::ChainOutDir, Pk::File, Pk::Dir];
impl Pk {
    fn name(self) -> &'static str {
        match self {
            Pk::LnOutFile => "symlink-outside-file",
            Pk::LnOutDir => "symlink-outside-dir",
            Pk::DangOut => "dangling-outside",
            Pk::LnInFile => "symlink-inside-file",
            Pk::LnInDir => "symlink-inside-dir",
            Pk::ChainOutFile => "chain-outside-file",
            Pk::ChainOutDir => "chain-outside-dir",
            Pk::File => "file",
            Pk::Dir => "dir",
        }
    }
    fn parse(s: &str) -> Pk {
        PKS.iter().copied().find(|k| k.name() == s).unwrap_or_else(|| kit::ev::machinery(format!("C29: bad export kind {s}")))
    }
}

/// Build `top/outside` (sentinels) and `top/export` with the given deviations; run to_folder; judge.
fn export_case(exp: &Export, devs: &[(usize, Pk)]) -> (String, Vec<(String, String)>, Vec<String>, Vec<(usize, Pk)>) {
    let top = new_top();
    let t = top.path().canonicalize().unwrap_or_else(|e| kit::ev::machinery(format!("canonicalize: {e}")));
    let outside = t.join("outside");
    let export = t.join("export");
    let mk = |p: &Path| std::fs::create_dir_all(p).unwrap_or_else(|e| kit::ev::machinery(format!("mkdir: {e}")));
    mk(&outside.join("sub"));
    mk(&export.join(".inside/d"));
    let wr = |p: &Path, d: Vec<u8>| std::fs::write(p, d).unwrap_or_else(|e| kit::ev::machinery(format!("write: {e}")));
    wr(&outside.join("secret.txt"), sentinel("OUT-secret"));
    wr(&outside.join("sub/keep"), sentinel("OUT-sub-keep"));
    wr(&export.join(".inside/f"), sentinel("IN-f"));
    let ln = |target: &Path, at: &Path| std::os::unix::fs::symlink(target, at).unwrap_or_else(|e| kit::ev::machinery(format!("symlink: {e}")));
    ln(&outside.join("secret.txt"), &export.join(".inside/hop_of"));
    ln(&outside.join("sub"), &export.join(".inside/hop_od"));
    // deviations are applied shallowest first; a deviation below a non-directory deviation cannot be created and is skipped
    let mut applied = vec![];
    let mut devs_sorted: Vec<(usize, Pk)> = devs.to_vec();
    devs_sorted.sort_by_key(|(i, _)| exp.positions[*i].components().count());
    for (i, k) in devs_sorted {
        let at = export.join(&exp.positions[i]);
        if let Some(parent) = at.parent() {
            if std::fs::create_dir_all(parent).is_err() {
                continue;
            }
        }
        if std::fs::symlink_metadata(&at).is_ok() {
            continue;
        }
        match k {
            Pk::LnOutFile => ln(&outside.join("secret.txt"), &at),
            Pk::LnOutDir => ln(&outside.join("sub"), &at),
            Pk::DangOut => ln(&outside.join("ghost"), &at),
            Pk::LnInFile => ln(&export.join(".inside/f"), &at),
            Pk::LnInDir => ln(&export.join(".inside/d"), &at),
            Pk::ChainOutFile => ln(&export.join(".inside/hop_of"), &at),
            Pk::ChainOutDir => ln(&export.join(".inside/hop_od"), &at),
            Pk::File => wr(&at, sentinel("IN-preexisting")),
            Pk::Dir => mk(&at),
        }
        applied.push((exp.positions[i].clone(), k));
    }
    let before = fsnap::snapshot(&outside);
    let rd = match sdk::read(sdk::ctx(), "image/png", &exp.signed) {
        Ok(r) => r,
        Err(e) => kit::ev::machinery(format!("C29 export seed unreadable: {e:?}")),
    };
    let res = par::guard(|| rd.to_folder(&export));
    let after = fsnap::snapshot(&outside);
    let mut v = vec![];
    let class = match &res {
        Err(p) => {
            v.push(("panic op=to_folder".to_string(), format!("to_folder panicked: {p}")));
            "panic".to_string()
        }
        Ok(Ok(())) => "ok".to_string(),
        Ok(Err(e)) => format!("err:{}", short_err(e)),
    };
    let d = fsnap::diff(&before, &after);
    let applied_idx: Vec<(usize, Pk)> = applied.iter().filter_map(|(p, k)| exp.positions.iter().position(|q| q == p).map(|i| (i, *k))).collect();
    (format!("{class}{}", if d.is_empty() { "" } else { "-OUTSIDE-MODIFIED" }), v, d, applied_idx)
}

fn export_via(exp: &Export, i: usize, k: Pk) -> String {
    format!("{}@{}", k.name(), if exp.files.contains(&exp.positions[i]) { "exported-file" } else { "intermediate-dir" })
}

// ------------------------------------------------------------------------------------------------
// entry point
// ------------------------------------------------------------------------------------------------

/// One violation per key (the first case found) with the number of cases, so that thousands of instances of one defect
/// cannot crowd out a different one.
#[derive(Default)]
struct Dedup {
    m: Mutex<BTreeMap<String, (String, Value, u64)>>,
}
impl Dedup {
    fn add(&self, key: String, what: String, case: Value) {
        let mut g = self.m.lock().unwrap();
        g.entry(key).and_modify(|e| e.2 += 1).or_insert((what, case, 1));
    }
    fn flush(&self, run: &Run) {
        for (k, (what, case, n)) in self.m.lock().unwrap().iter() {
            run.violation(k.clone(), format!("{what} [{n} case(s) with this key in this run]"), case.clone());
        }
    }
}

pub fn run(run: &Run, replay: Option<&Value>) {
    run.rule("store family: every tree (root entries a,b; space A: a in all 155 variants of {absent,file,dir(with children a,b of every kind),symlink->inside file/dir,symlink->outside file/dir,dangling inside/outside,chained->outside file/dir,chain via outside back inside}, b a plain directory; space B (thorough): a in all variants x b in each of the 12 leaf kinds) x every identifier of <= N segments over {a,b,..,.,\"\",a\\..,%2e%2e,..%2f,/abs} x ops {get,write_stream,exists,path_for_id,add,Builder::add_resource,with_archive+sign}. \
              export family: Reader::to_folder into folders in which every subset of <= 2 of the paths it writes (files and intermediate directories) is pre-populated with each of 9 kinds. \
              non-trivial = (tree,id) pairs whose real location (per the model resolver) exists and lies outside the manifest root or is reached through a symlink; export cases with at least one link leading outside");
    run.assume("Linux path semantics; temp dirs live under $VERIF_TMP, else /dev/shm (tmpfs), else /tmp, and are removed; base path is the canonical absolute path of the generated root");
    run.assume("path_for_id returning Some for a dangling link whose (non-existent) target would lie outside is recorded as an outcome, not judged: no file exists there, so nothing is read, written, revealed or exported");
    run.assume("for Reader::to_folder the folder passed by the caller is taken as the manifest root");
    par::quiet_panics();
    let signer = sdk::fixture_signer("ed25519");
    let png = kit::assets::png();
    if !stray_roots_present().is_empty() {
        kit::ev::machinery(format!("C29: {:?} exist in the file-system root before the run; cannot judge absolute identifiers", stray_roots_present()));
    }

    if let Some(c) = replay {
        replay_case(run, c, signer.as_ref(), &png);
        return;
    }

    // ---------------- store family ----------------
    let variants = entry_variants();
    let b_fixed = Entry { kind: K::Dir, kids: [K::File, K::Dir] };
    // work items: (tree, longest identifier). Space A: a in all 155 variants, b a plain directory {a: file, b: dir};
    // space B (thorough only): a in all variants x b in each of the 12 leaf kinds, with the shorter identifiers.
    let max_seg = run.tier.pick(3, 4);
    let idvs_all = id_vectors(9, max_seg);
    let n3 = id_vectors(9, 3).len();
    let mut trees: Vec<(Tree, usize)> = variants.iter().map(|a| (Tree { a: *a, b: b_fixed }, idvs_all.len())).collect();
    run.space(
        &format!("store family A: {} trees (a: every variant, b: directory with a file and a directory) x {} identifiers (<= {} segments over 9 symbols) x {} ops", variants.len(), idvs_all.len(), max_seg, OPS.len()),
        (variants.len() * idvs_all.len() * OPS.len()) as u64,
        true,
    );
    if run.tier.is_thorough() {
        for a in &variants {
            for k in KINDS {
                trees.push((Tree { a: *a, b: Entry::leaf(k) }, n3));
            }
        }
        run.space(
            &format!("store family B: {} trees (a: every variant x b: each of the 12 leaf kinds) x {} identifiers (<= 3 segments) x {} ops", variants.len() * KINDS.len(), n3, OPS.len()),
            (variants.len() * KINDS.len() * n3 * OPS.len()) as u64,
            true,
        );
    }
    let dedup = Dedup::default();
    let samples: Mutex<BTreeMap<String, Value>> = Mutex::new(BTreeMap::new());
    let unknown_res = std::sync::atomic::AtomicU64::new(0);
    par::for_each(&trees, |(tree, n_ids)| {
        let idvs = &idvs_all[..*n_ids];
        let top = new_top();
        let mut w = make_world(top.path());
        set_tree(&mut w, tree);
        let alpha = alphabet(&w);
        let mut local_out: BTreeMap<String, u64> = BTreeMap::new();
        let mut nontrivial = 0u64;
        for idv in idvs {
            let id = id_string(&alpha, idv);
            let (obs, r) = run_id(&mut w, tree, &id, &OPS, signer.as_ref(), &png);
            if r.res == Res::Unknown {
                unknown_res.fetch_add(1, std::sync::atomic::Ordering::Relaxed);
            }
            if r.existing_outside(&w) || !r.hops.is_empty() {
                nontrivial += 1;
            }
            for (op, class) in &obs.classes {
                let loc = match &r.res {
                    Res::Exists { .. } if r.existing_outside(&w) => "outside-existing",
                    Res::Exists { .. } => "inside-existing",
                    Res::Missing { .. } if r.outside(&w) => "outside-missing",
                    Res::Missing { .. } => "inside-missing",
                    Res::Broken => "broken",
                    Res::Unknown => "unmodelled",
                };
                *local_out.entry(format!("{op} {loc} -> {class}")).or_insert(0) += 1;
            }
            for (key, what, op) in obs.violations {
                dedup.add(key, what, case_json("store", tree, idv, &op));
            }
            // keep one real sample per interesting class
            if r.existing_outside(&w) {
                let k = format!("{}|{}", r.via(&w), idv.len());
                let mut g = samples.lock().unwrap();
                if g.len() < 40 && !g.contains_key(&k) {
                    g.insert(k, json!({"tree": tree.to_json(), "id": id_symbolic(idv), "real_location": format!("{:?}", r.res), "results": obs.classes.iter().map(|(o, c)| format!("{o}={c}")).collect::<Vec<_>>()}));
                }
            }
        }
        // end-of-tree safety net: the world must be pristine (every change should have been seen and restored above)
        let ch = check_fs(&w, true, true);
        if ch.any() {
            kit::ev::machinery(format!("C29: world of tree {} not pristine at the end (a change escaped the detector): outside {:?} root_changed {}", tree.to_json(), ch.outside, ch.root_changed()));
        }
        run.evals((idvs.len() * OPS.len()) as u64);
        run.nontrivial_n(nontrivial);
        for (k, n) in local_out {
            run.outcome_n(k, n);
        }
    });
    run.extra(
        "cpu_seconds_per_op",
        json!(OPS.iter().chain(["fs-check+restore"].iter()).enumerate().map(|(i, o)| (o.to_string(), json!(OP_NS[i].load(std::sync::atomic::Ordering::Relaxed) as f64 / 1e9))).collect::<serde_json::Map<_, _>>()),
    );
    run.extra("identifiers_with_unmodelled_real_location", json!(unknown_res.load(std::sync::atomic::Ordering::Relaxed)));
    for (_, v) in samples.lock().unwrap().iter().take(8) {
        run.sample(v.clone());
    }

    // ---------------- archive entry names (zip-slip): independent of the tree ----------------
    {
        let top = new_top();
        let mut w = make_world(top.path());
        let tree = Tree { a: Entry::leaf(K::LnOutDir), b: Entry::leaf(K::Dir) };
        set_tree(&mut w, &tree);
        let alpha = alphabet(&w);
        run.space("archive entry names: resources/<id> for every identifier, imported with Builder::with_archive", idvs_all.len() as u64, true);
        for idv in &idvs_all {
            let id = id_string(&alpha, idv);
            let zip = archive_for(&w, &id, true);
            run.eval();
            let res = par::guard(|| Builder::from_context(sdk::ctx()).with_archive(Cursor::new(zip)).map(|_| ()));
            let class = match &res {
                Err(p) => {
                    dedup.add("panic op=with_archive".into(), format!("with_archive panicked on entry resources/{id:?}: {p}"), case_json("zip", &tree, idv, "with_archive"));
                    "panic".to_string()
                }
                Ok(Ok(())) => "ok".into(),
                Ok(Err(e)) => format!("err:{}", short_err(e)),
            };
            run.outcome(format!("with_archive(entry name) -> {class}"));
            let ch = check_fs(&w, true, true);
            let (out, root_changed) = (ch.outside.clone(), ch.root_changed());
            if ch.any() || !stray_roots_present().is_empty() {
                dedup.add(
                    "outside-modified op=with_archive via=entry-name".into(),
                    format!("importing an archive with entry resources/{id:?} changed the file system: {out:?} root_changed={root_changed} {:?}", stray_roots_present()),
                    case_json("zip", &tree, idv, "with_archive"),
                );
                restore(&mut w, &tree, true);
            }
        }
    }

    // ---------------- export family ----------------
    let exp = export_seed(signer.as_ref(), &png);
    let npos = exp.positions.len();
    let mut cases: Vec<Vec<(usize, Pk)>> = vec![vec![]];
    for i in 0..npos {
        for k in PKS {
            cases.push(vec![(i, k)]);
        }
    }
    for i in 0..npos {
        for j in (i + 1)..npos {
            for k in PKS {
                for l in PKS {
                    cases.push(vec![(i, k), (j, l)]);
                }
            }
        }
    }
    run.space(&format!("export family: to_folder with <= 2 of its {npos} written paths pre-populated by one of {} kinds", PKS.len()), cases.len() as u64, true);
    run.extra("to_folder_paths", json!(exp.positions.iter().map(|p| p.display().to_string()).collect::<Vec<_>>()));
    // single deviations first: they say which (position, kind) is a way out on its own; pairs are then attributed to their
    // members that already fail alone, so that a pair only gets a key of its own when it fails as a combination
    let bad_single: Mutex<std::collections::BTreeSet<(usize, u8)>> = Mutex::new(Default::default());
    let pk_idx = |k: Pk| PKS.iter().position(|x| *x == k).unwrap_or(0) as u8;
    let judge = |devs: &Vec<(usize, Pk)>, singles_known: bool| {
        run.eval();
        let (class, mut v, d, applied) = export_case(&exp, devs);
        run.outcome(format!("to_folder -> {class}"));
        if devs.iter().any(|(_, k)| matches!(k, Pk::LnOutFile | Pk::LnOutDir | Pk::DangOut | Pk::ChainOutFile | Pk::ChainOutDir)) {
            run.nontrivial(format!("export {devs:?}"));
        }
        if !d.is_empty() {
            let what = format!("Reader::to_folder into a folder pre-populated with {:?} changed the outside directory: {d:?} (result {class})", applied.iter().map(|(i, k)| format!("{} = {}", exp.positions[*i].display(), k.name())).collect::<Vec<_>>());
            let mut vias: Vec<String> = vec![];
            if devs.len() == 1 {
                bad_single.lock().unwrap().insert((devs[0].0, pk_idx(devs[0].1)));
                vias.push(export_via(&exp, devs[0].0, devs[0].1));
            } else if singles_known {
                let g = bad_single.lock().unwrap();
                for (i, k) in &applied {
                    if g.contains(&(*i, pk_idx(*k))) {
                        vias.push(export_via(&exp, *i, *k));
                    }
                }
                if vias.is_empty() {
                    vias.push(format!("combination({})", applied.iter().map(|(i, k)| export_via(&exp, *i, *k)).collect::<Vec<_>>().join("+")));
                }
            }
            vias.sort();
            vias.dedup();
            for via in vias {
                v.push((format!("outside-modified op=to_folder via={via}"), what.clone()));
            }
        }
        for (key, what) in v {
            let case = json!({"family": "export", "deviations": devs.iter().map(|(i, k)| json!({"position": i, "path": exp.positions[*i].display().to_string(), "kind": k.name()})).collect::<Vec<_>>()});
            dedup.add(key, what, case);
        }
    };
    let (singles, pairs): (Vec<_>, Vec<_>) = cases.iter().cloned().partition(|c| c.len() <= 1);
    par::for_each(&singles, |devs| judge(devs, false));
    par::for_each(&pairs, |devs| judge(devs, true));
    dedup.flush(run);
}

fn replay_case(run: &Run, c: &Value, signer: &dyn c2pa::Signer, png: &[u8]) {
    run.eval();
    match c["family"].as_str() {
        Some("store") | Some("zip") => {
            let tree = Tree::from_json(&c["tree"]);
            let idv: Vec<usize> = c["id_segments"].as_array().map(|a| a.iter().map(|x| x.as_u64().unwrap_or(0) as usize).collect()).unwrap_or_default();
            let top = new_top();
            let mut w = make_world(top.path());
            set_tree(&mut w, &tree);
            let alpha = alphabet(&w);
            let id = id_string(&alpha, &idv);
            println!("tree: {}", tree.to_json());
            println!("root: {}   identifier: {id:?}", w.root.display());
            if c["family"].as_str() == Some("zip") {
                let zip = archive_for(&w, &id, true);
                let res = par::guard(|| Builder::from_context(sdk::ctx()).with_archive(Cursor::new(zip)).map(|_| ()));
                let ch = check_fs(&w, true, true);
                let (out, root_changed) = (ch.outside.clone(), ch.root_changed());
                println!("with_archive: {res:?}; outside changes {out:?}; root changed {root_changed}");
                if !out.is_empty() || root_changed {
                    run.violation("replay", format!("outside changes {out:?}"), c.clone());
                }
                return;
            }
            let op = c["op"].as_str().unwrap_or("add").to_string();
            let ops: Vec<&str> = if op == "read-batch" { vec!["get", "write_stream", "exists", "path_for_id", "add"] } else { vec![op.as_str()] };
            let (obs, r) = run_id(&mut w, &tree, &id, &ops, signer, png);
            println!("model: real location {:?}, symlinks followed {:?}", r.res, r.hops);
            for (o, cl) in &obs.classes {
                println!("  {o} -> {cl}");
            }
            for (k, what, _) in obs.violations {
                println!("  VIOLATES [{k}]: {what}");
                run.violation(k, what, c.clone());
            }
        }
        Some("export") => {
            let exp = export_seed(signer, png);
            let devs: Vec<(usize, Pk)> = c["deviations"]
                .as_array()
                .map(|a| {
                    a.iter()
                        .map(|d| {
                            // positions are matched by their place in the sorted list (labels are random per run)
                            (d["position"].as_u64().unwrap_or(0) as usize, Pk::parse(d["kind"].as_str().unwrap_or("")))
                        })
                        .collect()
                })
                .unwrap_or_default();
            println!("to_folder writes: {:?}", exp.positions);
            let (class, mut v, d, _) = export_case(&exp, &devs);
            println!("to_folder with {devs:?} -> {class}; outside changes: {d:?}");
            if !d.is_empty() {
                v.push(("outside-modified op=to_folder".into(), format!("outside directory changed: {d:?}")));
            }
            for (k, what) in v {
                println!("  VIOLATES [{k}]: {what}");
                run.violation(k, what, c.clone());
            }
        }
        _ => kit::ev::machinery("C29 replay: unknown family"),
    }
}

//! C09 — embedding, replacing or removing a manifest preserves the media content.
//!
//! S-inp: every seed asset of every writable format plus a BMFF layout grammar (order of moov/meta, mdat, an
//! already present C2PA box, free and XMP boxes x stco|co64 x 1-2 tracks; HEIF meta/iloc versions 0-2 x offset
//! sizes x base-offset use) x store sizes (grow / shrink / equal) x op in {embed, replace, remove}.
//! Oracle = `kit::walk::media` (independent): the list of non-manifest items (type, bytes) is unchanged in
//! order, every absolute offset stored in the container (stco/co64 chunk offsets with stsc/stsz lengths, iloc
//! extents, TIFF strips/tiles/sub-IFDs) addresses the same bytes as before; and
//! remove(embed(X,S)) == remove(X) byte for byte.
//!
//! Mutants caught (tools/mutant_run.sh A <diff> C09 quick):
//!   C09-skip-co64.diff  (adjust_known_offsets no longer patches co64)  -> VIOLATION "media-changed fmt=Bmff table=co64 rel=mdat-after-c2pa first=trackN chunkN lenN -> data ..."
//!
//! Findings on the unchanged tree: every key with rel=mdat-before-c2pa (offsets of data lying before the manifest box are shifted; u32
//! underflow panics when shrinking), every key with table=iloc-v1-base_offset (iloc v1 extent_index misparse), remove-roundtrip-differs
//! fmt=Tiff|Svg|Riff|Gif, media-changed fmt=Id3 (text frames re-encoded), media-changed fmt=Gif (87a -> 89a).

use kit::embed::{self, kind_of_err, remove, save, Iloc, Table, Top};
use kit::walk;
use kit::{assets::Asset, par, Run};
use serde_json::{json, Value};

const SMALL: usize = 60;
const MID: usize = 333;
const BIG: usize = 70_001;

fn layouts(thorough: bool) -> Vec<Asset> {
    let mut out = vec![];
    let il0 = Iloc { version: 0, offset_size: 4, base_offset_size: 0 };
    let opt_sets: Vec<Vec<Top>> = vec![vec![], vec![Top::C2pa], vec![Top::Free], vec![Top::C2pa, Top::Free], vec![Top::Xmp], vec![Top::C2pa, Top::Xmp]];
    for opts in &opt_sets {
        let mut items = vec![Top::Moov, Top::Mdat];
        items.extend(opts.iter().cloned());
        for perm in embed::permutations(&items) {
            let mut order = vec![Top::Ftyp];
            order.extend(perm);
            for table in [Table::Stco, Table::Co64] {
                for tracks in [1usize, 2] {
                    let name = format!("bmff[{}|{:?}|{}trk]", embed::order_name(&order), table, tracks);
                    out.push(kit::assets::a(embed::leak(name), "video/mp4", "mp4", embed::bmff_layout(&order, table, tracks, il0)));
                }
            }
        }
    }
    let heif_opts: Vec<Vec<Top>> = if thorough { vec![vec![], vec![Top::C2pa], vec![Top::Free], vec![Top::C2pa, Top::Free]] } else { vec![vec![], vec![Top::C2pa], vec![Top::Free]] };
    for opts in &heif_opts {
        let mut items = vec![Top::Meta, Top::Mdat];
        items.extend(opts.iter().cloned());
        for perm in embed::permutations(&items) {
            let mut order = vec![Top::Ftyp];
            order.extend(perm);
            for version in [0u8, 1, 2] {
                for offset_size in [4u8, 8] {
                    for base_offset_size in [0u8, 4, 8] {
                        let il = Iloc { version, offset_size, base_offset_size };
                        let name = format!("heif[{}|iloc v{version} os{offset_size} bs{base_offset_size}]", embed::order_name(&order));
                        out.push(kit::assets::a(embed::leak(name), "image/heic", "heic", embed::bmff_layout(&order, Table::Stco, 0, il)));
                    }
                }
            }
        }
    }
    out
}

fn all_assets(thorough: bool) -> Vec<Asset> {
    let mut v = embed::seeds();
    v.extend(layouts(thorough));
    v
}

struct Ctx<'a> {
    run: &'a Run,
    a: &'a Asset,
    k: walk::Kind,
    base_media: Vec<walk::Item>,
    removed_base: Option<Vec<u8>>,
}

fn label_class(s: &str) -> String {
    // drop indices so that keys stay stable: "item 7 '/moov/trak/.../stco' ..." -> first quoted label without digits runs
    let l = s.split('\'').nth(1).unwrap_or(s);
    let mut out = String::new();
    let mut last_digit = false;
    for c in l.chars() {
        if c.is_ascii_digit() {
            if !last_digit {
                out.push('N');
            }
            last_digit = true;
        } else {
            out.push(c);
            last_digit = false;
        }
    }
    out
}

impl Ctx<'_> {
    fn fmt(&self) -> String {
        // BMFF: add the offset-table form of the generated layout so that distinct defects get distinct keys
        let n = self.a.name;
        let form = if let Some(i) = n.find("|iloc v") {
            let v = &n[i + 7..i + 8];
            let base = !n.ends_with("bs0]");
            format!(" table=iloc-v{v}-{}", if base { "base_offset" } else { "extent_offset" })
        } else if n.contains("|Co64|") || n.contains("co64") {
            " table=co64".to_string()
        } else if self.k == walk::Kind::Bmff {
            if n.contains("heic") { " table=iloc-v0-extent_offset".to_string() } else { " table=stco".to_string() }
        } else {
            String::new()
        };
        format!("{:?}{form}", self.k)
    }
    /// key = class, format, (BMFF: where the media data lay relative to the manifest box, offset-table form), first differing item, op
    fn viol(&self, class: String, what: String, op: &str, rel: &str, first: &str) {
        self.run.outcome(class.clone());
        let rel = if rel.is_empty() { String::new() } else { format!(" {rel}") };
        let first = if first.is_empty() { String::new() } else { format!(" first={first}") };
        embed::report(self.run, format!("{class} fmt={}{rel}{first} op={op}", self.fmt()), format!("{} {op}: {what}", self.a.name), json!({"asset":self.a.name,"op":op}));
    }
    fn rel(&self, input: &[u8], result: Option<&[u8]>) -> &'static str {
        if self.k != walk::Kind::Bmff {
            return "";
        }
        match (bmff_rel(input), result) {
            ("rel=no-c2pa", Some(r)) => bmff_rel(r),
            (x, _) => x,
        }
    }
    /// media(result) must equal media(original)
    fn check_media(&self, op: &str, input: &[u8], result: &[u8]) -> bool {
        self.run.eval();
        match walk::media(self.k, result) {
            Err(e) => {
                self.viol("result-unparseable".into(), format!("independent walker cannot interpret the result: {e}"), op, self.rel(input, Some(result)), "");
                false
            }
            Ok(m) => match walk::media_diff(&self.base_media, &m) {
                None => {
                    self.run.outcome("media-preserved");
                    true
                }
                Some(d) => {
                    self.viol("media-changed".into(), d.clone(), op, self.rel(input, Some(result)), &label_class(&d));
                    false
                }
            },
        }
    }
    fn step(&self, op: &str, input: &[u8], store: Option<&[u8]>) -> Option<Vec<u8>> {
        let r = match store {
            Some(s) => save(self.a.mime, input, s),
            None => remove(self.a.mime, input),
        };
        match r {
            Ok(o) => {
                if self.check_media(op, input, &o) {
                    self.run.nontrivial(format!("{}/{op}", self.a.name));
                }
                Some(o)
            }
            Err(e) => {
                self.run.eval();
                let cls = if e.starts_with("PANIC") { "panic".to_string() } else { format!("op-error {}", kind_of_err(&e)) };
                self.viol(cls, e, op, self.rel(input, None), "");
                None
            }
        }
    }
    fn remove_equals_base(&self, op: &str, input: &[u8]) {
        let Some(base) = &self.removed_base else { return };
        if let Some(d) = self.step(op, input, None) {
            self.run.eval();
            if &d != base {
                let first = d.iter().zip(base.iter()).position(|(x, y)| x != y).unwrap_or(d.len().min(base.len()));
                self.viol("remove-roundtrip-differs".into(), format!("remove(embed(X,S)) has {} bytes, remove(X) has {}; first difference at offset {first}", d.len(), base.len()), op, self.rel(input, None), "");
            } else {
                self.run.outcome("remove-roundtrip-equal");
            }
        }
    }
}

/// Where the media data lies relative to the manifest box (BMFF): discriminates the known stco defect.
fn bmff_rel(d: &[u8]) -> &'static str {
    let Ok(b) = walk::bmff_boxes(d) else { return "rel=unknown" };
    let mdat = b.iter().find(|x| &x.typ == b"mdat").map(|x| x.start);
    let c2pa = b.iter().find(|x| x.uuid == Some(walk::BMFF_C2PA_UUID)).map(|x| x.start);
    match (mdat, c2pa) {
        (Some(m), Some(c)) if m < c => "rel=mdat-before-c2pa",
        (Some(_), Some(_)) => "rel=mdat-after-c2pa",
        _ => "rel=no-c2pa",
    }
}

fn asset_case(run: &Run, a: &Asset) {
    let k = embed::kind(a);
    let base_media = walk::media(k, &a.data).unwrap_or_else(|e| kit::ev::machinery(format!("C09: walker cannot interpret seed {}: {e}", a.name)));
    let removed_base = match remove(a.mime, &a.data) {
        Ok(r) => Some(r),
        Err(e) => {
            run.eval();
            let c = Ctx { run, a, k, base_media: vec![], removed_base: None };
            let cls = if e.starts_with("PANIC") { "panic".to_string() } else { format!("op-error {}", kind_of_err(&e)) };
            c.viol(cls, format!("remove on the seed fails: {e}"), "remove-seed", c.rel(&a.data, None), "");
            None
        }
    };
    let c = Ctx { run, a, k, base_media, removed_base };
    if let Some(r) = &c.removed_base {
        c.check_media("remove-seed", &a.data, r);
    }
    let (s_small, s_mid, s_mid2, s_big) = (embed::store(SMALL, 1), embed::store(MID, 2), embed::store(MID, 3), embed::store(BIG, 4));
    for (name, s) in [("embed-small", &s_small), ("embed-mid", &s_mid), ("embed-big", &s_big)] {
        let Some(e) = c.step(name, &a.data, Some(s)) else { continue };
        let rm = format!("remove-after-{name}");
        c.remove_equals_base(&rm, &e);
        if name == "embed-mid" {
            for (rn, rs) in [("replace-shrink", &s_small), ("replace-equal", &s_mid2), ("replace-grow", &s_big)] {
                if let Some(r) = c.step(rn, &e, Some(rs)) {
                    let rm = format!("remove-after-{rn}");
                    c.remove_equals_base(&rm, &r);
                }
            }
        }
        if name == "embed-big" {
            c.step("replace-big-to-small", &e, Some(&s_small));
        }
        if name == "embed-small" {
            c.step("replace-small-to-mid", &e, Some(&s_mid));
        }
    }
}

pub fn run(run: &Run, replay: Option<&Value>) {
    run.rule("per asset (seeds of every writable format + BMFF/HEIF layout grammar): embed {60, 333, 70001 B}, replace 333->{60, 333', 70001}, 70001->60, 60->333, remove after each, remove on the seed; \
              after every operation the independent media list (non-manifest items in order + bytes addressed by every stored absolute offset) must equal the seed's, and remove(...) must equal remove(seed) byte for byte. \
              non-trivial = operations that succeeded and whose result had an identical media list.");
    run.assume("media content is what kit::walk::media extracts; container bookkeeping that has to change (RIFF/ID3/box sizes, the numeric value of offsets, the position of TIFF IFDs, ID3 tag version and padding, an xmlns:c2pa attribute and an empty <metadata> element in SVG) is not media content; the byte-for-byte demand is only made for remove(embed(X,S)) == remove(X), as the property states");
    run.assume("seeds that already hold a C2PA box (layout grammar) count that box as manifest, so 'embed' on them is a replacement of a hand-built box by the SDK's own");
    let thorough = run.tier.is_thorough();
    if let Some(c) = replay {
        let name = c["asset"].as_str().unwrap_or("");
        let a = all_assets(true).into_iter().find(|x| x.name == name).unwrap_or_else(|| kit::ev::machinery(format!("C09 replay: no asset {name}")));
        asset_case(run, &a); // all operations on that asset (cheap); the recorded op is among them
        println!("replay: {} violation(s)", run.violation_count());
        return;
    }
    let assets = all_assets(thorough);
    // handler acceptance + determinism of the seeds
    let mut usable = vec![];
    for a in &assets {
        let s = embed::store(100, 1);
        let (x, y) = (save(a.mime, &a.data, &s), save(a.mime, &a.data, &s));
        if x != y {
            kit::ev::machinery(format!("C09: nondeterministic write for {}", a.name));
        }
        match x {
            Ok(_) => usable.push(a.clone()),
            Err(e) if e.starts_with("PANIC") => usable.push(a.clone()), // judged in the sweep
            Err(e) => {
                if !a.name.starts_with("bmff[") && !a.name.starts_with("heif[") {
                    kit::ev::machinery(format!("C09: seed {} not accepted by its handler: {e}", a.name));
                }
                // generated layouts are valid by construction (the independent walker resolves every offset of them)
                run.eval();
                let c = Ctx { run, a, k: embed::kind(a), base_media: vec![], removed_base: None };
                c.viol(format!("valid-layout-rejected {}", kind_of_err(&e)), e.clone(), "embed", c.rel(&a.data, None), "");
            }
        }
    }
    run.space(&format!("{} assets ({} seeds + {} generated BMFF/HEIF layouts, {} accepted by the handler) x 18 operations", assets.len(), embed::seeds().len(), assets.len() - embed::seeds().len(), usable.len()), (usable.len() * 18) as u64, true);
    run.extra("layouts_generated", json!(assets.len() - embed::seeds().len()));
    run.extra("assets_accepted", json!(usable.len()));
    par::for_each(&usable, |a| asset_case(run, a));
    for a in usable.iter().filter(|a| a.name.contains("mdat,moov,c2pa")).take(2) {
        run.sample(json!({"asset":a.name,"op":"replace-grow"}));
    }
    run.sample(json!({"asset":"tiff-MM-2pages","op":"embed-big"}));
    run.sample(json!({"asset":"avi-avix","op":"remove-after-embed-mid"}));
    run.sample(json!({"asset":"mp3-rich","op":"replace-shrink"}));
}

//! C31 — the C API never crashes or double-frees on handle misuse.
//! S-seq, level `model_checking`: explicit-state exploration of call histories over the exported `extern "C"` functions of
//! `c2pa-c-ffi` (linked as rlib, called exactly as C would). State = history (live objects cannot be copied, so every state is
//! rebuilt by replay); model = map address -> handle kind for live handles (keyed by address, so re-issued addresses are tracked).
//! Every pointer argument is drawn from {each live handle (right or wrong type), the most recently freed address, NULL,
//! a foreign pointer (harness-owned zeroed heap block)}; stream arguments from {fresh valid stream, live handle of another
//! type, released stream, NULL, foreign}. Pool <= 3 live handles.
//!
//! Exploration: (1) every sequence over a 22-function core alphabet to depth 2 (quick) / 3 (thorough) without any reduction,
//! thorough also every sequence over the full alphabet to depth 2; (2) breadth-first to depth 3 / 5 with one representative
//! history per abstract model state (multiset of (kind, flavour, status) + kind of the last freed address), every enabled call
//! tried in every state; (3) thorough: the BFS sequences of length <= 3 again under valgrind memcheck. Every sequence ends with
//! an epilogue that frees every handle the model believes live (must succeed exactly once, a second free must fail).
//!
//! All library calls happen in forked children of WORKER SUBPROCESSES (this binary re-executed with VERIF_C31_WORKER set), so a
//! crash kills one child, is attributed to the exact sequence, and the worker restarts a child after the crashing call.
//!
//! Oracle (property text): argument invalid per model => error indicator (NULL / negative / false) and a fresh, non-empty
//! c2pa_error(); all arguments valid => no handle-related error (NullParameter / UntrackedPointer / WrongPointerType);
//! free of a live handle returns 0 exactly once, afterwards -1 unless the address was re-issued; the child never dies.
//!
//! Missed once, now caught: an independently seeded change (a thread-local "last validated pointer" fast path in
//! PointerRegistry::validate that untrack() does not invalidate) needs borrow(h) · consume(h) without re-issuing the address ·
//! borrow(h): depth 4, and the BFS merged "h just validated" with "h not looked at". Since then: (a) failing forms of the
//! consuming entry points are in the alphabet, (b) the targeted use/consume/use-again shapes are enumerated unreduced in both
//! tiers, (c) the abstract state records which handle was validated last. tools/mutant_run.sh F /tmp/seed-C31/OUT/patch.diff C31 quick
//! -> 38 keys (`no-error-indicator fn=c2pa_builder_set_intent arg0=builder:freed`, `... fn=c2pa_reader_is_embedded arg0=reader:freed`, crashes).
//!
//! Mutants caught (tools/mutant_run.sh F <diff> C31 quick):
//!  * /verif/mutants/C31-build-no-untrack.diff   (c2pa_context_builder_build consumes the builder without untracking it)
//!      -> `crash fn=c2pa_free args=[any:freed] how=SIGSEGV` (double free of the consumed builder), same for every typed free
//!  * /verif/mutants/C31-free-ignores-untracked.diff (cimpl_free reports success for untracked pointers)
//!      -> `double-free-accepted kind=*`, `no-error-indicator fn=c2pa_free arg0=any:freed|foreign`, `no-error-message fn=c2pa_*_free ...`

#![allow(deprecated)]
#![allow(clippy::missing_safety_doc)]

use std::{
    collections::{BTreeMap, BTreeSet},
    ffi::{c_char, c_int, c_void, CStr, CString},
    io::{BufRead, BufReader, Cursor, Read, Seek, SeekFrom, Write},
    os::unix::io::FromRawFd,
    process::{Command, Stdio},
    sync::Mutex,
};

use c2pa_c as ffi;
use kit::{par, sdk, Run};
use serde_json::{json, Value};

// ------------------------------------------------------------------------------------------------
// handle kinds, function table
// ------------------------------------------------------------------------------------------------

#[derive(Clone, Copy, PartialEq, Eq, Debug, PartialOrd, Ord, Hash)]
enum Kd {
    Settings,
    CtxBuilder,
    Context,
    Reader,
    Builder,
    Signer,
    Resolver,
    Str,
    Bytes,
}
impl Kd {
    fn name(self) -> &'static str {
        match self {
            Kd::Settings => "settings",
            Kd::CtxBuilder => "context-builder",
            Kd::Context => "context",
            Kd::Reader => "reader",
            Kd::Builder => "builder",
            Kd::Signer => "signer",
            Kd::Resolver => "http-resolver",
            Kd::Str => "string",
            Kd::Bytes => "bytes",
        }
    }
}

/// content of a fresh valid stream
#[derive(Clone, Copy, PartialEq, Eq, Debug)]
enum Content {
    Png,
    SignedPng,
    Empty,
}

#[derive(Clone, Copy, PartialEq, Eq, Debug)]
enum Consume {
    No,
    /// consumed when the call succeeds; unspecified (resolved by the next observation) when it fails
    OnSuccess,
    /// consumed whenever this argument itself is valid (documented: "the pointer is INVALID after this call")
    Always,
}

#[derive(Clone, Copy, PartialEq, Eq, Debug)]
enum P {
    /// handle of the given kind
    H(Kd, Consume),
    /// any library pointer (free functions)
    Any,
    /// stream
    S(Content),
}

#[derive(Clone, Copy, PartialEq, Eq, Debug)]
enum Ret {
    /// pointer to a new handle of this kind; NULL = error
    Ptr(Kd),
    /// pointer or NULL, NULL being also a legitimate answer for valid arguments
    PtrOrNull(Kd),
    /// >= 0 ok, < 0 error
    Int,
    /// false = error indicator (also a legitimate answer)
    Bool,
    Void,
}

macro_rules! functions {
    ($( $v:ident = $name:literal : [$($p:expr),*] -> $ret:expr, out=$out:literal, loads=$loads:literal; )*) => {
        #[derive(Clone, Copy, PartialEq, Eq, Debug, PartialOrd, Ord, Hash)]
        enum F { $($v),* }
        const ALL_F: &[F] = &[$(F::$v),*];
        impl F {
            fn name(self) -> &'static str { match self { $(F::$v => $name),* } }
            fn params(self) -> &'static [P] { match self { $(F::$v => { const X: &[P] = &[$($p),*]; X }),* } }
            fn ret(self) -> Ret { match self { $(F::$v => $ret),* } }
            /// writes a tracked byte buffer through an out-pointer on success
            fn out_bytes(self) -> bool { match self { $(F::$v => $out),* } }
            /// the returned reader has a manifest store loaded
            fn loads(self) -> bool { match self { $(F::$v => $loads),* } }
            fn parse(s: &str) -> Option<F> { ALL_F.iter().copied().find(|f| f.name() == s) }
        }
    };
}

use Consume::*;
use Kd::*;
functions! {
    // constructors without pointer arguments
    Version = "c2pa_version": [] -> Ret::Ptr(Str), out=false, loads=false;
    ErrorStr = "c2pa_error": [] -> Ret::Ptr(Str), out=false, loads=false;
    SettingsNew = "c2pa_settings_new": [] -> Ret::Ptr(Settings), out=false, loads=false;
    CtxBuilderNew = "c2pa_context_builder_new": [] -> Ret::Ptr(CtxBuilder), out=false, loads=false;
    ContextNew = "c2pa_context_new": [] -> Ret::Ptr(Context), out=false, loads=false;
    ReaderNew = "c2pa_reader_new": [] -> Ret::Ptr(Reader), out=false, loads=false;
    BuilderFromJson = "c2pa_builder_from_json": [] -> Ret::Ptr(Builder), out=false, loads=false;
    SignerFromInfo = "c2pa_signer_from_info": [] -> Ret::Ptr(Signer), out=false, loads=false;
    ResolverCreate = "c2pa_http_resolver_create": [] -> Ret::Ptr(Resolver), out=false, loads=false;
    Ed25519Sign = "c2pa_ed25519_sign": [] -> Ret::Ptr(Bytes), out=false, loads=false;
    // settings / context
    SettingsSetValue = "c2pa_settings_set_value": [P::H(Settings, No)] -> Ret::Int, out=false, loads=false;
    SettingsUpdate = "c2pa_settings_update_from_string": [P::H(Settings, No)] -> Ret::Int, out=false, loads=false;
    CtxSetSettings = "c2pa_context_builder_set_settings": [P::H(CtxBuilder, No), P::H(Settings, No)] -> Ret::Int, out=false, loads=false;
    CtxSetSigner = "c2pa_context_builder_set_signer": [P::H(CtxBuilder, No), P::H(Signer, OnSuccess)] -> Ret::Int, out=false, loads=false;
    CtxSetResolver = "c2pa_context_builder_set_http_resolver": [P::H(CtxBuilder, No), P::H(Resolver, OnSuccess)] -> Ret::Int, out=false, loads=false;
    CtxSetProgress = "c2pa_context_builder_set_progress_callback": [P::H(CtxBuilder, No)] -> Ret::Int, out=false, loads=false;
    CtxBuild = "c2pa_context_builder_build": [P::H(CtxBuilder, Always)] -> Ret::Ptr(Context), out=false, loads=false;
    ContextCancel = "c2pa_context_cancel": [P::H(Context, No)] -> Ret::Int, out=false, loads=false;
    // reader
    ReaderFromContext = "c2pa_reader_from_context": [P::H(Context, No)] -> Ret::Ptr(Reader), out=false, loads=false;
    ReaderFromStream = "c2pa_reader_from_stream": [P::S(Content::SignedPng)] -> Ret::Ptr(Reader), out=false, loads=true;
    ReaderWithStream = "c2pa_reader_with_stream": [P::H(Reader, Always), P::S(Content::SignedPng)] -> Ret::Ptr(Reader), out=false, loads=true;
    ReaderWithManifestData = "c2pa_reader_with_manifest_data_and_stream": [P::H(Reader, Always), P::S(Content::Png)] -> Ret::Ptr(Reader), out=false, loads=true;
    ReaderWithFragment = "c2pa_reader_with_fragment": [P::H(Reader, Always), P::S(Content::SignedPng), P::S(Content::Png)] -> Ret::Ptr(Reader), out=false, loads=true;
    ReaderJson = "c2pa_reader_json": [P::H(Reader, No)] -> Ret::Ptr(Str), out=false, loads=false;
    ReaderDetailedJson = "c2pa_reader_detailed_json": [P::H(Reader, No)] -> Ret::Ptr(Str), out=false, loads=false;
    ReaderRemoteUrl = "c2pa_reader_remote_url": [P::H(Reader, No)] -> Ret::PtrOrNull(Str), out=false, loads=false;
    ReaderIsEmbedded = "c2pa_reader_is_embedded": [P::H(Reader, No)] -> Ret::Bool, out=false, loads=false;
    ReaderResourceToStream = "c2pa_reader_resource_to_stream": [P::H(Reader, No), P::S(Content::Empty)] -> Ret::Int, out=false, loads=false;
    // builder
    BuilderFromContext = "c2pa_builder_from_context": [P::H(Context, No)] -> Ret::Ptr(Builder), out=false, loads=false;
    BuilderFromArchive = "c2pa_builder_from_archive": [P::S(Content::Png)] -> Ret::Ptr(Builder), out=false, loads=false;
    BuilderWithDefinition = "c2pa_builder_with_definition": [P::H(Builder, Always)] -> Ret::Ptr(Builder), out=false, loads=false;
    BuilderWithArchive = "c2pa_builder_with_archive": [P::H(Builder, Always), P::S(Content::Png)] -> Ret::Ptr(Builder), out=false, loads=false;
    // failing forms of the consuming entry points (valid handle, unusable non-handle argument): the handle is consumed all the same
    BuilderWithDefinitionBadJson = "c2pa_builder_with_definition[malformed json]": [P::H(Builder, Always)] -> Ret::Ptr(Builder), out=false, loads=false;
    BuilderWithDefinitionNullJson = "c2pa_builder_with_definition[json=NULL]": [P::H(Builder, Always)] -> Ret::Ptr(Builder), out=false, loads=false;
    ReaderWithStreamNullFormat = "c2pa_reader_with_stream[format=NULL]": [P::H(Reader, Always), P::S(Content::SignedPng)] -> Ret::Ptr(Reader), out=false, loads=true;
    ReaderWithStreamNoManifest = "c2pa_reader_with_stream[asset without manifest]": [P::H(Reader, Always), P::S(Content::Png)] -> Ret::Ptr(Reader), out=false, loads=true;
    ReaderWithManifestDataNullData = "c2pa_reader_with_manifest_data_and_stream[data=NULL]": [P::H(Reader, Always), P::S(Content::Png)] -> Ret::Ptr(Reader), out=false, loads=true;
    BuilderSetIntent = "c2pa_builder_set_intent": [P::H(Builder, No)] -> Ret::Int, out=false, loads=false;
    BuilderSetNoEmbed = "c2pa_builder_set_no_embed": [P::H(Builder, No)] -> Ret::Void, out=false, loads=false;
    BuilderSetRemoteUrl = "c2pa_builder_set_remote_url": [P::H(Builder, No)] -> Ret::Int, out=false, loads=false;
    BuilderSetBasePath = "c2pa_builder_set_base_path": [P::H(Builder, No)] -> Ret::Int, out=false, loads=false;
    BuilderAddResource = "c2pa_builder_add_resource": [P::H(Builder, No), P::S(Content::Png)] -> Ret::Int, out=false, loads=false;
    BuilderAddIngredient = "c2pa_builder_add_ingredient_from_stream": [P::H(Builder, No), P::S(Content::Png)] -> Ret::Int, out=false, loads=false;
    BuilderAddAction = "c2pa_builder_add_action": [P::H(Builder, No)] -> Ret::Int, out=false, loads=false;
    BuilderToArchive = "c2pa_builder_to_archive": [P::H(Builder, No), P::S(Content::Empty)] -> Ret::Int, out=false, loads=false;
    BuilderAddIngredientArchive = "c2pa_builder_add_ingredient_from_archive": [P::H(Builder, No), P::S(Content::Png)] -> Ret::Int, out=false, loads=false;
    BuilderWriteIngredientArchive = "c2pa_builder_write_ingredient_archive": [P::H(Builder, No), P::S(Content::Empty)] -> Ret::Int, out=false, loads=false;
    BuilderSign = "c2pa_builder_sign": [P::H(Builder, No), P::S(Content::Png), P::S(Content::Empty), P::H(Signer, No)] -> Ret::Int, out=true, loads=false;
    BuilderSignContext = "c2pa_builder_sign_context": [P::H(Builder, No), P::S(Content::Png), P::S(Content::Empty)] -> Ret::Int, out=true, loads=false;
    BuilderDataHashedPlaceholder = "c2pa_builder_data_hashed_placeholder": [P::H(Builder, No)] -> Ret::Int, out=true, loads=false;
    BuilderSignDataHashed = "c2pa_builder_sign_data_hashed_embeddable": [P::H(Builder, No), P::H(Signer, No), P::S(Content::Png)] -> Ret::Int, out=true, loads=false;
    BuilderNeedsPlaceholder = "c2pa_builder_needs_placeholder": [P::H(Builder, No)] -> Ret::Int, out=false, loads=false;
    BuilderHashType = "c2pa_builder_hash_type": [P::H(Builder, No)] -> Ret::Int, out=false, loads=false;
    BuilderPlaceholder = "c2pa_builder_placeholder": [P::H(Builder, No)] -> Ret::Int, out=true, loads=false;
    BuilderSignEmbeddable = "c2pa_builder_sign_embeddable": [P::H(Builder, No)] -> Ret::Int, out=true, loads=false;
    BuilderSetExclusions = "c2pa_builder_set_data_hash_exclusions": [P::H(Builder, No)] -> Ret::Int, out=false, loads=false;
    BuilderSetMerkle = "c2pa_builder_set_fixed_size_merkle": [P::H(Builder, No)] -> Ret::Int, out=false, loads=false;
    BuilderHashMdat = "c2pa_builder_hash_mdat_bytes": [P::H(Builder, No)] -> Ret::Int, out=false, loads=false;
    BuilderUpdateHash = "c2pa_builder_update_hash_from_stream": [P::H(Builder, No), P::S(Content::Png)] -> Ret::Int, out=false, loads=false;
    // signer
    SignerReserveSize = "c2pa_signer_reserve_size": [P::H(Signer, No)] -> Ret::Int, out=false, loads=false;
    IdentitySignerCreate = "c2pa_identity_signer_create": [P::H(Signer, OnSuccess), P::H(Signer, OnSuccess)] -> Ret::Ptr(Signer), out=false, loads=false;
    // frees
    Free = "c2pa_free": [P::Any] -> Ret::Int, out=false, loads=false;
    ReleaseString = "c2pa_release_string": [P::Any] -> Ret::Void, out=false, loads=false;
    StringFree = "c2pa_string_free": [P::Any] -> Ret::Void, out=false, loads=false;
    ReaderFree = "c2pa_reader_free": [P::Any] -> Ret::Void, out=false, loads=false;
    BuilderFree = "c2pa_builder_free": [P::Any] -> Ret::Void, out=false, loads=false;
    SignerFree = "c2pa_signer_free": [P::Any] -> Ret::Void, out=false, loads=false;
    ManifestBytesFree = "c2pa_manifest_bytes_free": [P::Any] -> Ret::Void, out=false, loads=false;
    SignatureFree = "c2pa_signature_free": [P::Any] -> Ret::Void, out=false, loads=false;
    ReleaseStream = "c2pa_release_stream": [P::Any] -> Ret::Void, out=false, loads=false;
}

impl F {
    /// a non-handle argument is deliberately NULL: "NullParameter" is then the expected, non-handle-related error
    fn null_nonhandle(self) -> bool {
        matches!(self, F::BuilderWithDefinitionNullJson | F::ReaderWithStreamNullFormat | F::ReaderWithManifestDataNullData)
    }
    /// the reduced alphabet used for the deepest unreduced enumeration
    fn is_core(self) -> bool {
        matches!(
            self,
            F::Version
                | F::SettingsNew
                | F::CtxBuilderNew
                | F::ContextNew
                | F::ReaderNew
                | F::BuilderFromJson
                | F::SignerFromInfo
                | F::CtxSetSettings
                | F::CtxSetSigner
                | F::CtxBuild
                | F::ReaderFromContext
                | F::BuilderFromContext
                | F::ReaderWithStream
                | F::ReaderJson
                | F::ReaderResourceToStream
                | F::BuilderWithDefinition
                | F::BuilderAddResource
                | F::BuilderSign
                | F::SignerReserveSize
                | F::IdentitySignerCreate
                | F::Free
                | F::ReaderFree
                | F::ReleaseStream
        )
    }
    fn is_free(self) -> bool {
        matches!(self.params(), [P::Any])
    }
    fn produces(self) -> bool {
        matches!(self.ret(), Ret::Ptr(_) | Ret::PtrOrNull(_)) || self.out_bytes()
    }
    fn consumes_any(self) -> bool {
        self.params().iter().any(|p| matches!(p, P::H(_, OnSuccess | Always))) || self.is_free()
    }
}

// ------------------------------------------------------------------------------------------------
// operations (symbolic, replayable)
// ------------------------------------------------------------------------------------------------

#[derive(Clone, Copy, PartialEq, Eq, Debug, PartialOrd, Ord, Hash)]
enum A {
    /// the i-th live handle of the pool (creation order)
    Slot(u8),
    /// the most recently freed / consumed address that has not been re-issued
    Freed,
    Null,
    /// address of a zeroed heap block owned by the harness
    Foreign,
    /// a fresh valid stream, created for this call and released after it
    Amb,
    /// a stream that was created and released just before the call
    AmbFreed,
}
impl A {
    fn name(self) -> String {
        match self {
            A::Slot(i) => format!("slot{i}"),
            A::Freed => "freed".into(),
            A::Null => "null".into(),
            A::Foreign => "foreign".into(),
            A::Amb => "fresh-stream".into(),
            A::AmbFreed => "released-stream".into(),
        }
    }
    fn parse(s: &str) -> Option<A> {
        Some(match s {
            "freed" => A::Freed,
            "null" => A::Null,
            "foreign" => A::Foreign,
            "fresh-stream" => A::Amb,
            "released-stream" => A::AmbFreed,
            _ => A::Slot(s.strip_prefix("slot")?.parse().ok()?),
        })
    }
}

#[derive(Clone, PartialEq, Eq, Debug, PartialOrd, Ord, Hash)]
struct Op {
    f: F,
    args: Vec<A>,
}
impl Op {
    fn to_json(&self) -> Value {
        json!({"f": self.f.name(), "a": self.args.iter().map(|a| a.name()).collect::<Vec<_>>()})
    }
    fn from_json(v: &Value) -> Option<Op> {
        Some(Op {
            f: F::parse(v["f"].as_str()?)?,
            args: v["a"].as_array()?.iter().map(|a| a.as_str().and_then(A::parse)).collect::<Option<Vec<_>>>()?,
        })
    }
    fn text(&self) -> String {
        format!("{}({})", self.f.name(), self.args.iter().map(|a| a.name()).collect::<Vec<_>>().join(", "))
    }
}
fn hist_json(h: &[Op]) -> Value {
    Value::Array(h.iter().map(|o| o.to_json()).collect())
}
fn hist_from_json(v: &Value) -> Vec<Op> {
    v.as_array()
        .map(|a| a.iter().map(|o| Op::from_json(o).unwrap_or_else(|| kit::ev::machinery(format!("C31: bad op {o}")))).collect())
        .unwrap_or_default()
}

// ------------------------------------------------------------------------------------------------
// model
// ------------------------------------------------------------------------------------------------

#[derive(Clone, Copy, PartialEq, Eq, Debug, PartialOrd, Ord)]
enum St {
    Live,
    /// a failed call may or may not have consumed it; the next observation decides
    Unknown,
}

#[derive(Clone, Debug)]
struct Hd {
    addr: usize,
    kind: Kd,
    loaded: bool,
    st: St,
}

#[derive(Clone, Debug, Default)]
struct Model {
    live: Vec<Hd>,
    freed: Option<(usize, Kd)>,
    /// address of the handle that most recently passed type validation in a call (the library may remember it)
    last_validated: Option<usize>,
}

const POOL: usize = 3;

#[derive(Clone, Copy, PartialEq, Eq, Debug)]
enum Validity {
    Valid,
    Unknown,
    /// null passed to a free function: documented no-op
    NullNoop,
    Invalid(&'static str),
}

impl Model {
    fn key(&self) -> String {
        let mut v: Vec<String> = self
            .live
            .iter()
            .map(|h| format!("{}{}{}", h.kind.name(), if h.loaded { "+store" } else { "" }, if h.st == St::Unknown { "?" } else { "" }))
            .collect();
        v.sort();
        // the history matters in one more way: which handle was validated last (a just-validated handle and a handle
        // that has not been looked at recently must not be merged into one state)
        let last = match self.last_validated {
            None => "-".to_string(),
            Some(a) => match self.live.iter().find(|h| h.addr == a) {
                Some(h) => format!("live-{}", h.kind.name()),
                None if self.freed.map(|f| f.0) == Some(a) => "the-freed-address".to_string(),
                None => "gone".to_string(),
            },
        };
        format!("[{}] freed={} last-validated={}", v.join(","), self.freed.map(|f| f.1.name()).unwrap_or("-"), last)
    }

    fn validity(&self, p: P, a: A) -> Validity {
        match (p, a) {
            (P::Any, A::Null) => Validity::NullNoop,
            (_, A::Null) => Validity::Invalid("null"),
            (_, A::Freed) => Validity::Invalid("freed"),
            (_, A::Foreign) => Validity::Invalid("foreign"),
            (_, A::AmbFreed) => Validity::Invalid("released-stream"),
            (P::S(_), A::Amb) => Validity::Valid,
            (_, A::Amb) => Validity::Invalid("wrong-type"),
            (p, A::Slot(i)) => match self.live.get(i as usize) {
                None => Validity::Invalid("freed"),
                Some(h) if h.st == St::Unknown => Validity::Unknown,
                Some(h) => match p {
                    P::Any => Validity::Valid,
                    P::H(k, _) if k == h.kind => Validity::Valid,
                    _ => Validity::Invalid("wrong-type"),
                },
            },
        }
    }

    fn kill(&mut self, idx: usize) {
        let h = self.live.remove(idx);
        self.freed = Some((h.addr, h.kind));
    }

    /// Every call enabled in this state.
    fn enabled(&self) -> Vec<Op> {
        let mut out: BTreeSet<Op> = BTreeSet::new();
        let n = self.live.len();
        let first_of = |k: Kd, not: Option<u8>| -> Option<u8> {
            self.live.iter().enumerate().find(|(i, h)| h.kind == k && h.st == St::Live && Some(*i as u8) != not).map(|(i, _)| i as u8)
        };
        for &f in ALL_F {
            let params = f.params();
            if f.produces() && n >= POOL && !f.consumes_any() {
                continue;
            }
            if params.is_empty() {
                out.insert(Op { f, args: vec![] });
                continue;
            }
            // candidate classes per parameter
            let cands = |p: P| -> Vec<A> {
                let mut c: Vec<A> = (0..n as u8).map(A::Slot).collect();
                if matches!(p, P::S(_)) {
                    // wrong type for streams: only the first live handle (all pool members are non-streams)
                    c.truncate(1);
                    c.push(A::Amb);
                    c.push(A::AmbFreed);
                } else if self.freed.is_some() {
                    c.push(A::Freed);
                }
                c.push(A::Null);
                c.push(A::Foreign);
                c
            };
            for j in 0..params.len() {
                for cj in cands(params[j]) {
                    // the other parameters get a valid argument when one exists (never the same handle twice), else NULL
                    let mut args = vec![A::Null; params.len()];
                    args[j] = cj;
                    let not = if let A::Slot(i) = cj { Some(i) } else { None };
                    for (k, p) in params.iter().enumerate() {
                        if k == j {
                            continue;
                        }
                        args[k] = match p {
                            P::S(_) => A::Amb,
                            P::H(kd, _) => first_of(*kd, not).map(A::Slot).unwrap_or(A::Null),
                            P::Any => A::Null,
                        };
                    }
                    out.insert(Op { f, args });
                }
            }
        }
        out.into_iter().collect()
    }
}

// ------------------------------------------------------------------------------------------------
// executing calls (child process only)
// ------------------------------------------------------------------------------------------------

struct Env {
    png: Vec<u8>,
    signed_png: Vec<u8>,
    manifest_data: Vec<u8>,
    thumb_uri: CString,
    cert: CString,
    key: CString,
    foreign: usize,
}

/// harness side of a stream: a cursor; the C2paStream only holds a raw pointer to it
struct AmbStream {
    ptr: *mut ffi::C2paStream,
    ctx: *mut Cursor<Vec<u8>>,
}

unsafe extern "C" fn s_read(ctx: *mut ffi::StreamContext, data: *mut u8, len: isize) -> isize {
    let c = &mut *(ctx as *mut Cursor<Vec<u8>>);
    let buf = std::slice::from_raw_parts_mut(data, len.max(0) as usize);
    c.read(buf).map(|n| n as isize).unwrap_or(-1)
}
unsafe extern "C" fn s_seek(ctx: *mut ffi::StreamContext, off: isize, mode: ffi::C2paSeekMode) -> isize {
    let c = &mut *(ctx as *mut Cursor<Vec<u8>>);
    let from = match mode {
        ffi::C2paSeekMode::Start => SeekFrom::Start(off.max(0) as u64),
        ffi::C2paSeekMode::Current => SeekFrom::Current(off as i64),
        ffi::C2paSeekMode::End => SeekFrom::End(off as i64),
    };
    c.seek(from).map(|n| n as isize).unwrap_or(-1)
}
unsafe extern "C" fn s_write(ctx: *mut ffi::StreamContext, data: *const u8, len: isize) -> isize {
    let c = &mut *(ctx as *mut Cursor<Vec<u8>>);
    let buf = std::slice::from_raw_parts(data, len.max(0) as usize);
    c.write(buf).map(|n| n as isize).unwrap_or(-1)
}
unsafe extern "C" fn s_flush(_ctx: *mut ffi::StreamContext) -> isize {
    0
}
unsafe extern "C" fn progress_cb(_c: *const c_void, _p: ffi::C2paProgressPhase, _s: u32, _t: u32) -> c_int {
    1
}
unsafe extern "C" fn resolver_cb(_c: *mut c_void, _rq: *const ffi::C2paHttpRequest, _rs: *mut ffi::C2paHttpResponse) -> c_int {
    -1
}

impl Env {
    fn new() -> Env {
        let png = kit::assets::png();
        let signer = sdk::fixture_signer("ed25519");
        // the seed carries a claim thumbnail so that c2pa_reader_resource_to_stream has something to deliver
        let mut b = sdk::builder(
            sdk::ctx(),
            r#"{"title":"seed","claim_generator_info":[{"name":"kit","version":"1"}],"thumbnail":{"format":"image/jpeg","identifier":"thumb.jpg"}}"#,
        );
        b.add_resource("thumb.jpg", Cursor::new(b"verif-c31-thumbnail-bytes".to_vec()))
            .unwrap_or_else(|e| kit::ev::machinery(format!("C31: seed add_resource: {e:?}")));
        let (signed_png, manifest_data) =
            sdk::sign(&mut b, signer.as_ref(), "image/png", &png).unwrap_or_else(|e| kit::ev::machinery(format!("C31: cannot sign the seed png: {e:?}")));
        let rd = sdk::read(sdk::ctx(), "image/png", &signed_png).unwrap_or_else(|e| kit::ev::machinery(format!("C31: seed unreadable: {e:?}")));
        let thumb_uri = rd
            .active_manifest()
            .and_then(|m| m.thumbnail_ref().map(|r| r.identifier.clone()))
            .unwrap_or_else(|| kit::ev::machinery("C31: seed has no thumbnail reference"));
        let mut probe = Cursor::new(Vec::new());
        if rd.resource_to_stream(&thumb_uri, &mut probe).is_err() {
            kit::ev::machinery(format!("C31: seed thumbnail {thumb_uri} cannot be streamed"));
        }
        let (cert, key) = sdk::fixture_keys("ed25519");
        let foreign = Box::leak(vec![0u64; 512].into_boxed_slice()).as_ptr() as usize;
        Env {
            png,
            signed_png,
            manifest_data,
            thumb_uri: CString::new(thumb_uri).unwrap_or_default(),
            cert: CString::new(cert).unwrap_or_default(),
            key: CString::new(key).unwrap_or_default(),
            foreign,
        }
    }
    unsafe fn stream(&self, c: Content) -> AmbStream {
        let data = match c {
            Content::Png => self.png.clone(),
            Content::SignedPng => self.signed_png.clone(),
            Content::Empty => vec![],
        };
        let ctx = Box::into_raw(Box::new(Cursor::new(data)));
        let ptr = ffi::c2pa_create_stream(ctx as *mut ffi::StreamContext, s_read, s_seek, s_write, s_flush);
        AmbStream { ptr, ctx }
    }
}

const BUILDER_DEF: &str = r#"{"title":"verif-c31","claim_generator_info":[{"name":"verif","version":"1"}],"assertions":[{"label":"c2pa.actions","data":{"actions":[{"action":"c2pa.created","digitalSourceType":"http://cv.iptc.org/newscodes/digitalsourcetype/digitalCapture"}]}}]}"#;

fn cs(s: &str) -> CString {
    CString::new(s).unwrap_or_default()
}

struct Raw {
    ptr: usize,
    int: i64,
    out: usize,
}

/// The actual FFI call. `a` are the resolved pointer arguments (as integers), in parameter order.
unsafe fn call(env: &Env, f: F, a: &[usize]) -> Raw {
    let mut r = Raw { ptr: 0, int: 0, out: 0 };
    let p = |i: usize| a[i];
    let png_fmt = cs("image/png");
    let mut out: *const u8 = std::ptr::null();
    macro_rules! ptr {
        ($e:expr) => {
            r.ptr = $e as usize
        };
    }
    macro_rules! int {
        ($e:expr) => {
            r.int = $e as i64
        };
    }
    match f {
        F::Version => ptr!(ffi::c2pa_version()),
        F::ErrorStr => ptr!(ffi::c2pa_error()),
        F::SettingsNew => ptr!(ffi::c2pa_settings_new()),
        F::CtxBuilderNew => ptr!(ffi::c2pa_context_builder_new()),
        F::ContextNew => ptr!(ffi::c2pa_context_new()),
        F::ReaderNew => ptr!(ffi::c2pa_reader_new()),
        F::BuilderFromJson => ptr!(ffi::c2pa_builder_from_json(cs(BUILDER_DEF).as_ptr())),
        F::SignerFromInfo => {
            let alg = cs("ed25519");
            let info = ffi::C2paSignerInfo { alg: alg.as_ptr(), sign_cert: env.cert.as_ptr(), private_key: env.key.as_ptr(), ta_url: std::ptr::null() };
            ptr!(ffi::c2pa_signer_from_info(&info))
        }
        F::ResolverCreate => ptr!(ffi::c2pa_http_resolver_create(std::ptr::null(), resolver_cb)),
        F::Ed25519Sign => {
            let data = b"verif-c31-data";
            ptr!(ffi::c2pa_ed25519_sign(data.as_ptr(), data.len(), env.key.as_ptr()))
        }
        F::SettingsSetValue => int!(ffi::c2pa_settings_set_value(p(0) as *mut _, cs("verify.verify_after_sign").as_ptr(), cs("true").as_ptr())),
        F::SettingsUpdate => int!(ffi::c2pa_settings_update_from_string(p(0) as *mut _, cs(r#"{"verify":{"verify_after_sign":true}}"#).as_ptr(), cs("json").as_ptr())),
        F::CtxSetSettings => int!(ffi::c2pa_context_builder_set_settings(p(0) as *mut _, p(1) as *mut _)),
        F::CtxSetSigner => int!(ffi::c2pa_context_builder_set_signer(p(0) as *mut _, p(1) as *mut _)),
        F::CtxSetResolver => int!(ffi::c2pa_context_builder_set_http_resolver(p(0) as *mut _, p(1) as *mut _)),
        F::CtxSetProgress => int!(ffi::c2pa_context_builder_set_progress_callback(p(0) as *mut _, std::ptr::null(), progress_cb)),
        F::CtxBuild => ptr!(ffi::c2pa_context_builder_build(p(0) as *mut _)),
        F::ContextCancel => int!(ffi::c2pa_context_cancel(p(0) as *mut _)),
        F::ReaderFromContext => ptr!(ffi::c2pa_reader_from_context(p(0) as *mut _)),
        F::ReaderFromStream => ptr!(ffi::c2pa_reader_from_stream(png_fmt.as_ptr(), p(0) as *mut _)),
        F::ReaderWithStream => ptr!(ffi::c2pa_reader_with_stream(p(0) as *mut _, png_fmt.as_ptr(), p(1) as *mut _)),
        F::ReaderWithManifestData => ptr!(ffi::c2pa_reader_with_manifest_data_and_stream(p(0) as *mut _, png_fmt.as_ptr(), p(1) as *mut _, env.manifest_data.as_ptr(), env.manifest_data.len())),
        F::ReaderWithFragment => ptr!(ffi::c2pa_reader_with_fragment(p(0) as *mut _, png_fmt.as_ptr(), p(1) as *mut _, p(2) as *mut _)),
        F::ReaderJson => ptr!(ffi::c2pa_reader_json(p(0) as *mut _)),
        F::ReaderDetailedJson => ptr!(ffi::c2pa_reader_detailed_json(p(0) as *mut _)),
        F::ReaderRemoteUrl => ptr!(ffi::c2pa_reader_remote_url(p(0) as *mut _)),
        F::ReaderIsEmbedded => int!(ffi::c2pa_reader_is_embedded(p(0) as *mut _)),
        F::ReaderResourceToStream => int!(ffi::c2pa_reader_resource_to_stream(p(0) as *mut _, env.thumb_uri.as_ptr(), p(1) as *mut _)),
        F::BuilderFromContext => ptr!(ffi::c2pa_builder_from_context(p(0) as *mut _)),
        F::BuilderFromArchive => ptr!(ffi::c2pa_builder_from_archive(p(0) as *mut _)),
        F::BuilderWithDefinition => ptr!(ffi::c2pa_builder_with_definition(p(0) as *mut _, cs(BUILDER_DEF).as_ptr())),
        F::BuilderWithArchive => ptr!(ffi::c2pa_builder_with_archive(p(0) as *mut _, p(1) as *mut _)),
        F::BuilderWithDefinitionBadJson => ptr!(ffi::c2pa_builder_with_definition(p(0) as *mut _, cs("{ this is not json").as_ptr())),
        F::BuilderWithDefinitionNullJson => ptr!(ffi::c2pa_builder_with_definition(p(0) as *mut _, std::ptr::null())),
        F::ReaderWithStreamNullFormat => ptr!(ffi::c2pa_reader_with_stream(p(0) as *mut _, std::ptr::null(), p(1) as *mut _)),
        F::ReaderWithStreamNoManifest => ptr!(ffi::c2pa_reader_with_stream(p(0) as *mut _, png_fmt.as_ptr(), p(1) as *mut _)),
        F::ReaderWithManifestDataNullData => ptr!(ffi::c2pa_reader_with_manifest_data_and_stream(p(0) as *mut _, png_fmt.as_ptr(), p(1) as *mut _, std::ptr::null(), 0)),
        F::BuilderSetIntent => int!(ffi::c2pa_builder_set_intent(p(0) as *mut _, ffi::C2paBuilderIntent::Edit, ffi::C2paDigitalSourceType::Empty)),
        F::BuilderSetNoEmbed => ffi::c2pa_builder_set_no_embed(p(0) as *mut _),
        F::BuilderSetRemoteUrl => int!(ffi::c2pa_builder_set_remote_url(p(0) as *mut _, cs("http://127.0.0.1:9/m.c2pa").as_ptr())),
        F::BuilderSetBasePath => int!(ffi::c2pa_builder_set_base_path(p(0) as *mut _, cs("/tmp/verif-c31-no-such-dir").as_ptr())),
        F::BuilderAddResource => int!(ffi::c2pa_builder_add_resource(p(0) as *mut _, cs("verif-resource").as_ptr(), p(1) as *mut _)),
        F::BuilderAddIngredient => int!(ffi::c2pa_builder_add_ingredient_from_stream(p(0) as *mut _, cs(r#"{"title":"i"}"#).as_ptr(), png_fmt.as_ptr(), p(1) as *mut _)),
        F::BuilderAddAction => int!(ffi::c2pa_builder_add_action(p(0) as *mut _, cs(r#"{"action":"c2pa.edited"}"#).as_ptr())),
        F::BuilderToArchive => int!(ffi::c2pa_builder_to_archive(p(0) as *mut _, p(1) as *mut _)),
        F::BuilderAddIngredientArchive => int!(ffi::c2pa_builder_add_ingredient_from_archive(p(0) as *mut _, p(1) as *mut _)),
        F::BuilderWriteIngredientArchive => int!(ffi::c2pa_builder_write_ingredient_archive(p(0) as *mut _, cs("verif-ingredient").as_ptr(), p(1) as *mut _)),
        F::BuilderSign => int!(ffi::c2pa_builder_sign(p(0) as *mut _, png_fmt.as_ptr(), p(1) as *mut _, p(2) as *mut _, p(3) as *mut _, &mut out)),
        F::BuilderSignContext => int!(ffi::c2pa_builder_sign_context(p(0) as *mut _, png_fmt.as_ptr(), p(1) as *mut _, p(2) as *mut _, &mut out)),
        F::BuilderDataHashedPlaceholder => int!(ffi::c2pa_builder_data_hashed_placeholder(p(0) as *mut _, 2048, png_fmt.as_ptr(), &mut out)),
        F::BuilderSignDataHashed => int!(ffi::c2pa_builder_sign_data_hashed_embeddable(
            p(0) as *mut _,
            p(1) as *mut _,
            cs(r#"{"exclusions":[{"start":33,"length":100}],"name":"jumbf manifest","alg":"sha256","hash":"gWZNEOMHQNiULfA/tO5HD2awOwYDA3tnfUPApIr9csk=","pad":[]}"#).as_ptr(),
            png_fmt.as_ptr(),
            p(2) as *mut _,
            &mut out
        )),
        F::BuilderNeedsPlaceholder => int!(ffi::c2pa_builder_needs_placeholder(p(0) as *mut _, png_fmt.as_ptr())),
        F::BuilderHashType => {
            let mut ht = ffi::C2paHashType::DataHash;
            int!(ffi::c2pa_builder_hash_type(p(0) as *mut _, png_fmt.as_ptr(), &mut ht))
        }
        F::BuilderPlaceholder => int!(ffi::c2pa_builder_placeholder(p(0) as *mut _, png_fmt.as_ptr(), &mut out)),
        F::BuilderSignEmbeddable => int!(ffi::c2pa_builder_sign_embeddable(p(0) as *mut _, png_fmt.as_ptr(), &mut out)),
        F::BuilderSetExclusions => {
            let ex: [u64; 2] = [33, 100];
            int!(ffi::c2pa_builder_set_data_hash_exclusions(p(0) as *mut _, ex.as_ptr(), 1))
        }
        F::BuilderSetMerkle => int!(ffi::c2pa_builder_set_fixed_size_merkle(p(0) as *mut _, 1)),
        F::BuilderHashMdat => {
            let d = [0u8; 32];
            int!(ffi::c2pa_builder_hash_mdat_bytes(p(0) as *mut _, 0, d.as_ptr(), d.len(), false))
        }
        F::BuilderUpdateHash => int!(ffi::c2pa_builder_update_hash_from_stream(p(0) as *mut _, png_fmt.as_ptr(), p(1) as *mut _)),
        F::SignerReserveSize => int!(ffi::c2pa_signer_reserve_size(p(0) as *mut _)),
        F::IdentitySignerCreate => ptr!(ffi::c2pa_identity_signer_create(p(0) as *mut _, p(1) as *mut _, std::ptr::null(), std::ptr::null())),
        F::Free => int!(ffi::c2pa_free(p(0) as *const c_void)),
        F::ReleaseString => ffi::c2pa_release_string(p(0) as *mut c_char),
        F::StringFree => ffi::c2pa_string_free(p(0) as *mut c_char),
        F::ReaderFree => ffi::c2pa_reader_free(p(0) as *mut _),
        F::BuilderFree => ffi::c2pa_builder_free(p(0) as *mut _),
        F::SignerFree => ffi::c2pa_signer_free(p(0) as *const _),
        F::ManifestBytesFree => ffi::c2pa_manifest_bytes_free(p(0) as *const u8),
        F::SignatureFree => ffi::c2pa_signature_free(p(0) as *const u8),
        F::ReleaseStream => ffi::c2pa_release_stream(p(0) as *mut _),
    }
    r.out = out as usize;
    r
}

const SENTINEL: &str = "Other: verif-c31-sentinel";


/// Set a known last error, so that "this call produced an error message" is observable through the C API alone.
unsafe fn arm_error() -> String {
    ffi::c2pa_error_set_last(cs(SENTINEL).as_ptr());
    read_error()
}
unsafe fn read_error() -> String {
    let p = ffi::c2pa_error();
    if p.is_null() {
        return String::new();
    }
    let s = CStr::from_ptr(p).to_string_lossy().into_owned();
    ffi::c2pa_free(p as *const c_void);
    s
}

#[derive(Default)]
struct Verdicts {
    v: Vec<(String, String)>,
    class: String,
}

fn handle_error_class(msg: &str) -> Option<&'static str> {
    for c in ["NullParameter", "UntrackedPointer", "WrongPointerType"] {
        // registry errors reach c2pa_error() wrapped as "Other: UntrackedPointer: 0x..."
        if msg.starts_with(c) || msg.starts_with(&format!("Other: {c}")) {
            return Some(c);
        }
    }
    None
}

/// Arguments of `op` described by class (for keys): "builder:valid,stream:null", "stream:wrong-type(builder)", ...
fn arg_classes(m: &Model, op: &Op) -> String {
    let params = op.f.params();
    op.args
        .iter()
        .enumerate()
        .map(|(k, a)| {
            let pname = match params[k] {
                P::H(kd, _) => kd.name(),
                P::Any => "any",
                P::S(_) => "stream",
            };
            let c = match (validity_for(m, op.f, k, params[k], *a), a) {
                (Validity::Valid, _) => "valid".to_string(),
                (Validity::Unknown, _) => "unknown-status".to_string(),
                (Validity::NullNoop, _) => "null".to_string(),
                (Validity::Invalid("wrong-type"), A::Slot(i)) => format!("wrong-type({})", m.live.get(*i as usize).map(|h| h.kind.name()).unwrap_or("?")),
                (Validity::Invalid(c), _) => c.to_string(),
            };
            format!("{pname}:{c}")
        })
        .collect::<Vec<_>>()
        .join(",")
}

/// Validity of argument `k` of `f`, taking documented optional pointers into account:
/// `c2pa_builder_sign_data_hashed_embeddable`'s `asset` stream "may be NULL to use pre calculated hashes".
fn validity_for(m: &Model, f: F, k: usize, p: P, a: A) -> Validity {
    if f == F::BuilderSignDataHashed && k == 2 && a == A::Null {
        return Validity::Valid;
    }
    m.validity(p, a)
}

/// Execute one op against the library, judge it against the model, update the model.
unsafe fn exec(env: &Env, m: &mut Model, op: &Op, judge: bool) -> Verdicts {
    let f = op.f;
    let params = f.params();
    let mut verdicts = Verdicts::default();
    // Which ops are enabled was decided on one rebuild of the prefix; on this rebuild the allocator may have re-issued the freed
    // address to a new handle (then there is no "freed address" to pass), or the pool may be shorter. Such a call is not applicable.
    let inapplicable = op.args.iter().any(|a| match a {
        A::Freed => m.freed.is_none(),
        A::Slot(i) => (*i as usize) >= m.live.len(),
        _ => false,
    });
    if inapplicable {
        verdicts.class = format!("{} not-applicable (freed address re-issued on this rebuild)", f.name());
        return verdicts;
    }
    // resolve arguments
    let mut ambient: Vec<AmbStream> = vec![];
    let mut dead_ctx: Vec<*mut Cursor<Vec<u8>>> = vec![];
    let mut raw_args = vec![];
    let mut validity = vec![];
    for (k, (p, a)) in params.iter().zip(op.args.iter()).enumerate() {
        validity.push(validity_for(m, op.f, k, *p, *a));
        let content = if let P::S(c) = p { *c } else { Content::Empty };
        raw_args.push(match a {
            A::Slot(i) => m.live.get(*i as usize).map(|h| h.addr).unwrap_or(0),
            A::Freed => m.freed.map(|f| f.0).unwrap_or(0),
            A::Null => 0,
            A::Foreign => env.foreign,
            A::Amb => {
                let s = env.stream(content);
                let p = s.ptr as usize;
                ambient.push(s);
                p
            }
            A::AmbFreed => {
                let s = env.stream(content);
                ffi::c2pa_release_stream(s.ptr);
                dead_ctx.push(s.ctx);
                s.ptr as usize
            }
        });
    }
    let unknown = validity.iter().any(|v| *v == Validity::Unknown);
    let invalid: Option<(usize, &'static str)> = validity.iter().enumerate().find_map(|(i, v)| if let Validity::Invalid(c) = v { Some((i, *c)) } else { None });

    let armed = arm_error();
    let raw = call(env, f, &raw_args);
    let msg = read_error();
    let fresh = !msg.is_empty() && msg != armed;

    // release ambient streams (they are valid library handles: releasing them must not be a problem)
    for s in ambient {
        ffi::c2pa_release_stream(s.ptr);
        drop(Box::from_raw(s.ctx));
    }
    for c in dead_ctx {
        drop(Box::from_raw(c));
    }

    let is_err = match f.ret() {
        Ret::Ptr(_) | Ret::PtrOrNull(_) => raw.ptr == 0,
        Ret::Int => raw.int < 0,
        Ret::Bool => raw.int == 0,
        Ret::Void => fresh,
    };
    let wrong_kind = |i: usize| -> String {
        match op.args[i] {
            A::Slot(s) => m.live.get(s as usize).map(|h| format!("({})", h.kind.name())).unwrap_or_default(),
            _ => String::new(),
        }
    };
    let argdesc = |i: usize, c: &str| {
        format!("arg{}={}:{}{}", i, match params[i] { P::H(k, _) => k.name(), P::Any => "any", P::S(_) => "stream" }, c, if c == "wrong-type" { wrong_kind(i) } else { String::new() })
    };
    verdicts.class = format!(
        "{} {} -> {}",
        f.name(),
        if unknown { "unknown-status-arg".to_string() } else if let Some((i, c)) = invalid { argdesc(i, c) } else { "valid".to_string() },
        if is_err { format!("error[{}]", handle_error_class(&msg).unwrap_or_else(|| msg.split(':').next().unwrap_or(""))) } else { "ok".to_string() }
    );

    if judge && !unknown {
        if let Some((i, c)) = invalid {
            if !matches!(f.ret(), Ret::Void) && !is_err {
                verdicts.v.push((format!("no-error-indicator fn={} {}", f.name(), argdesc(i, c)), format!("{} returned a success value although {}", op.text(), argdesc(i, c))));
            }
            if !fresh {
                verdicts.v.push((
                    format!("no-error-message fn={} {}", f.name(), argdesc(i, c)),
                    format!("{} with {} left no retrievable error message (c2pa_error() = {:?})", op.text(), argdesc(i, c), msg),
                ));
            }
        } else {
            if is_err && fresh {
                if let Some(hc) = handle_error_class(&msg).filter(|c| !(f.null_nonhandle() && *c == "NullParameter")) {
                    verdicts.v.push((format!("spurious-handle-error fn={} err={hc}", f.name()), format!("{} with valid arguments failed with {msg:?}", op.text())));
                }
            }
            if f.is_free() && f == F::Free && validity[0] == Validity::Valid && raw.int != 0 {
                verdicts.v.push((format!("free-live-failed fn={}", f.name()), format!("{} of a live handle returned {} ({msg:?})", op.text(), raw.int)));
            }
            if f.is_free() && validity[0] == Validity::NullNoop && f == F::Free && raw.int != 0 {
                verdicts.v.push(("free-null-failed".into(), format!("c2pa_free(NULL) returned {}", raw.int)));
            }
        }
    }

    // the last handle argument (parameter order) that the model considers a valid typed handle was validated by this call,
    // provided every parameter before it was usable too
    {
        let mut ok_so_far = true;
        for (j, p) in params.iter().enumerate() {
            let usable = matches!(validity[j], Validity::Valid | Validity::Unknown | Validity::NullNoop);
            if ok_so_far && matches!(p, P::H(..)) && validity[j] == Validity::Valid {
                m.last_validated = Some(raw_args[j]);
            }
            if !usable {
                ok_so_far = false;
            }
        }
    }
    // ---- model update ----
    let untracked = fresh && handle_error_class(&msg) == Some("UntrackedPointer");
    let mut to_kill: Vec<usize> = vec![];
    let mut to_unknown: Vec<usize> = vec![];
    let mut to_live: Vec<usize> = vec![];
    for (j, (p, a)) in params.iter().zip(op.args.iter()).enumerate() {
        let slot = if let A::Slot(i) = a { Some(*i as usize).filter(|i| *i < m.live.len()) } else { None };
        let v = validity[j];
        if let (Some(s), Validity::Unknown) = (slot, v) {
            // An unspecified status is only decided by a call whose outcome depends on that argument: the registry says
            // "untracked" (consumed), or the call succeeds with it as an argument of the right type (still live).
            let right_type = match p {
                P::Any => true,
                P::H(k, _) => m.live[s].kind == *k,
                P::S(_) => false,
            };
            if untracked && invalid.is_none() {
                to_kill.push(s);
                continue;
            }
            if right_type && !is_err && invalid.is_none() {
                to_live.push(s);
            } else {
                continue;
            }
        }
        let usable = matches!(v, Validity::Valid | Validity::Unknown);
        let Some(s) = slot else { continue };
        if !usable {
            continue;
        }
        match p {
            P::Any => {
                let freed_ok = match f.ret() {
                    Ret::Int => raw.int == 0,
                    _ => !fresh,
                };
                if freed_ok {
                    to_kill.push(s);
                } else if v == Validity::Valid {
                    to_unknown.push(s);
                }
            }
            P::H(_, Always) => to_kill.push(s),
            P::H(_, OnSuccess) => {
                if !is_err && invalid.is_none() {
                    to_kill.push(s);
                } else {
                    to_unknown.push(s);
                }
            }
            _ => {}
        }
    }
    for s in to_live {
        m.live[s].st = St::Live;
    }
    for s in to_unknown {
        if !to_kill.contains(&s) {
            m.live[s].st = St::Unknown;
        }
    }
    to_kill.sort();
    to_kill.dedup();
    for s in to_kill.into_iter().rev() {
        m.kill(s);
    }
    // new handles
    let mut born: Vec<(usize, Kd, bool)> = vec![];
    if let Ret::Ptr(k) | Ret::PtrOrNull(k) = f.ret() {
        if raw.ptr != 0 {
            born.push((raw.ptr, k, f.loads()));
        }
    }
    if f.out_bytes() && raw.out != 0 {
        born.push((raw.out, Kd::Bytes, false));
    }
    for (addr, k, loaded) in born {
        if let Some(idx) = m.live.iter().position(|h| h.addr == addr) {
            if m.live[idx].st == St::Live && judge {
                verdicts.v.push((
                    format!("live-address-reissued fn={} kind={}", f.name(), m.live[idx].kind.name()),
                    format!("{} returned address {addr:#x}, which the model holds as a live {} handle: the library released it without the caller asking", op.text(), m.live[idx].kind.name()),
                ));
            }
            m.live.remove(idx);
        }
        if m.freed.map(|f| f.0) == Some(addr) {
            m.freed = None;
        }
        m.live.push(Hd { addr, kind: k, loaded, st: St::Live });
    }
    verdicts
}

/// Free everything the model believes live (must succeed once), then free it again (must fail).
unsafe fn epilogue(m: &mut Model, last: &Op, judge: bool) -> Vec<(String, String)> {
    let mut v = vec![];
    let handles: Vec<Hd> = m.live.drain(..).collect();
    let mut freed_now = vec![];
    for h in &handles {
        let r = ffi::c2pa_free(h.addr as *const c_void);
        if h.st == St::Live {
            if r != 0 {
                if judge {
                    v.push((
                        format!("free-live-failed-at-end kind={} after={}", h.kind.name(), last.f.name()),
                        format!("after {}, c2pa_free of the {} handle the model holds live returned {r} ({:?})", last.text(), h.kind.name(), read_error()),
                    ));
                }
            } else {
                freed_now.push(h.clone());
            }
        } else if r == 0 {
            freed_now.push(h.clone());
        }
    }
    for h in &freed_now {
        let r = ffi::c2pa_free(h.addr as *const c_void);
        if r == 0 && judge {
            v.push((format!("double-free-accepted kind={}", h.kind.name()), format!("a second c2pa_free of the same {} handle (no allocation in between) returned 0", h.kind.name())));
        }
    }
    m.freed = None;
    m.last_validated = None;
    v
}

// ------------------------------------------------------------------------------------------------
// worker side: expand units in forked children
// ------------------------------------------------------------------------------------------------

/// One unit of work: run prefix·op for every op enabled after `prefix` (or only `only`).
#[derive(Clone)]
struct Unit {
    prefix: Vec<Op>,
    only: Option<Op>,
    want_succ: bool,
    dedup: bool,
    verbose: bool,
    /// only calls of the core alphabet are tried
    core: bool,
    /// when not empty: exactly these calls are tried after the prefix (instead of every enabled call)
    ops: Vec<Op>,
}
impl Unit {
    fn to_json(&self) -> Value {
        json!({"prefix": hist_json(&self.prefix), "only": self.only.as_ref().map(|o| o.to_json()), "want_succ": self.want_succ, "dedup": self.dedup, "verbose": self.verbose, "core": self.core, "ops": hist_json(&self.ops)})
    }
    fn from_json(v: &Value) -> Unit {
        Unit {
            prefix: hist_from_json(&v["prefix"]),
            only: if v["only"].is_null() { None } else { Op::from_json(&v["only"]) },
            want_succ: v["want_succ"].as_bool().unwrap_or(false),
            dedup: v["dedup"].as_bool().unwrap_or(false),
            verbose: v["verbose"].as_bool().unwrap_or(false),
            core: v["core"].as_bool().unwrap_or(false),
            ops: hist_from_json(&v["ops"]),
        }
    }
}

static PIPE_FD: std::sync::atomic::AtomicI32 = std::sync::atomic::AtomicI32::new(-1);

/// One line = one write(2) of less than PIPE_BUF bytes, so lines of concurrent writers never interleave.
fn child_write(s: &str) {
    let fd = PIPE_FD.load(std::sync::atomic::Ordering::Relaxed);
    if fd >= 0 {
        let mut b = s.as_bytes().to_vec();
        if b.len() > 4000 {
            b.truncate(3999);
            b.push(b'\n');
        }
        unsafe { libc::write(fd, b.as_ptr() as *const c_void, b.len()) };
    }
}

/// index of the call being executed (for panic reports)
static CUR_IDX: std::sync::atomic::AtomicI64 = std::sync::atomic::AtomicI64::new(-1);

/// Wall-clock budget of ONE sequence (prefix rebuild + call + epilogue). Enforced twice: the child arms alarm(2) before every
/// sequence, and the worker (its parent) kills the child with SIGKILL when no protocol line arrives for longer than that.
/// a unit (one prefix) is abandoned after this many violating sequences
const UNIT_BAD_CAP: usize = 8;
/// the whole exploration stops after this many distinct violation keys / violating sequences
const STOP_KEYS: usize = 25;
const STOP_SEQUENCES: u64 = 200;
static STOP: std::sync::atomic::AtomicBool = std::sync::atomic::AtomicBool::new(false);
static BAD_TOTAL: std::sync::atomic::AtomicU64 = std::sync::atomic::AtomicU64::new(0);
/// worker subprocesses currently running (killed at once when the early stop trips)
static WORKER_PIDS: Mutex<Vec<u32>> = Mutex::new(Vec::new());

fn stopped() -> bool {
    STOP.load(std::sync::atomic::Ordering::Relaxed)
}
fn trip_stop() {
    STOP.store(true, std::sync::atomic::Ordering::Relaxed);
    for pid in WORKER_PIDS.lock().unwrap().iter() {
        unsafe { libc::kill(*pid as i32, libc::SIGKILL) };
    }
}

fn seq_budget_s() -> u32 {
    if std::env::var("VERIF_C31_VGLOG").is_ok() {
        120 // under valgrind everything is ~50x slower
    } else {
        std::env::var("VERIF_C31_BUDGET_S").ok().and_then(|s| s.parse().ok()).unwrap_or(2)
    }
}
/// wall-clock limit for a sequence that blocks without using CPU (the CPU budget cannot see that); generous, because on a
/// loaded machine a healthy child may not be scheduled for seconds
const WALL_BUDGET_S: u32 = 60;

/// (Re-)arm the per-sequence budgets in the child: CPU seconds through ITIMER_PROF (SIGPROF), wall clock through alarm (SIGALRM).
unsafe fn arm_budget(cpu_s: u32) {
    let tv = libc::itimerval { it_interval: libc::timeval { tv_sec: 0, tv_usec: 0 }, it_value: libc::timeval { tv_sec: cpu_s as libc::time_t, tv_usec: 0 } };
    libc::setitimer(libc::ITIMER_PROF, &tv, std::ptr::null_mut());
    libc::alarm(WALL_BUDGET_S.max(cpu_s * 2));
}

/// Line reader over a pipe with a timeout (poll), so that a spinning child cannot block its parent.
struct LineReader {
    fd: i32,
    buf: Vec<u8>,
    eof: bool,
}
enum Got {
    Line(String),
    Eof,
    Timeout,
}
impl LineReader {
    fn next(&mut self, timeout_ms: i32) -> Got {
        loop {
            if let Some(pos) = self.buf.iter().position(|b| *b == b'\n') {
                let line: Vec<u8> = self.buf.drain(..=pos).collect();
                return Got::Line(String::from_utf8_lossy(&line[..line.len() - 1]).into_owned());
            }
            if self.eof {
                return Got::Eof;
            }
            let mut pfd = libc::pollfd { fd: self.fd, events: libc::POLLIN, revents: 0 };
            let r = unsafe { libc::poll(&mut pfd, 1, timeout_ms) };
            if r == 0 {
                return Got::Timeout;
            }
            if r < 0 {
                if std::io::Error::last_os_error().kind() == std::io::ErrorKind::Interrupted {
                    continue;
                }
                self.eof = true;
                continue;
            }
            let mut tmp = [0u8; 8192];
            let n = unsafe { libc::read(self.fd, tmp.as_mut_ptr() as *mut c_void, tmp.len()) };
            if n <= 0 {
                self.eof = true;
            } else {
                self.buf.extend_from_slice(&tmp[..n as usize]);
            }
        }
    }
}
impl Drop for LineReader {
    fn drop(&mut self) {
        unsafe {
            libc::close(self.fd);
        }
    }
}

fn sig_name(status: i32) -> String {
    if libc::WIFSIGNALED(status) {
        let s = libc::WTERMSIG(status);
        match s {
            libc::SIGSEGV => "SIGSEGV".to_string(),
            libc::SIGABRT => "SIGABRT".to_string(),
            libc::SIGBUS => "SIGBUS".to_string(),
            libc::SIGALRM => "timeout(SIGALRM, wall clock)".to_string(),
            libc::SIGPROF => "timeout(SIGPROF, CPU budget)".to_string(),
            libc::SIGILL => "SIGILL".to_string(),
            libc::SIGFPE => "SIGFPE".to_string(),
            _ => format!("signal{s}"),
        }
    } else {
        format!("exit{}", libc::WEXITSTATUS(status))
    }
}

/// Body of a forked child: never returns. Runs prefix·op for every enabled op with index >= start, rebuilding the prefix state
/// by replay each time (fork-per-call was tried as a state copy; on this virtualised box process creation costs far more
/// than replaying a few constructors). A crash kills this child; the worker restarts a new one after the crashing index.
unsafe fn child_main(env: &Env, unit: &Unit, start: usize, wfd: i32) -> ! {
    PIPE_FD.store(wfd, std::sync::atomic::Ordering::Relaxed);
    // a panic raised by harness code exits 101; a panic inside the library (extern "C" cannot unwind) is reported and aborts
    std::panic::set_hook(Box::new(|info| {
        let loc = info.location().map(|l| format!("{}:{}", l.file(), l.line())).unwrap_or_default();
        let msg = if let Some(s) = info.payload().downcast_ref::<&str>() {
            s.to_string()
        } else if let Some(s) = info.payload().downcast_ref::<String>() {
            s.clone()
        } else {
            "?".into()
        };
        let in_harness = loc.contains("props/src/") || loc.contains("kit/src/");
        let msg: String = msg.chars().take(600).collect();
        child_write(&format!("X {} {}\n", CUR_IDX.load(std::sync::atomic::Ordering::Relaxed), json!({"harness": in_harness, "loc": loc, "msg": msg})));
        if in_harness {
            libc::_exit(101);
        }
    }));
    let budget = seq_budget_s();
    arm_budget(budget * 3);
    let last = unit.prefix.last().cloned().unwrap_or(Op { f: F::Version, args: vec![] });
    let replay = |m: &mut Model| {
        for op in &unit.prefix {
            exec(env, m, op, false);
        }
    };
    child_write("R\n");
    let ops: Vec<Op> = match &unit.only {
        Some(o) => vec![o.clone()],
        None if !unit.ops.is_empty() => unit.ops.clone(),
        None => {
            let mut m = Model::default();
            replay(&mut m);
            let e: Vec<Op> = m.enabled().into_iter().filter(|o| !unit.core || o.f.is_core()).collect();
            epilogue(&mut m, &last, false);
            e
        }
    };
    child_write(&format!("N {}\n", ops.len()));
    for (i, op) in ops.iter().enumerate().skip(start) {
        CUR_IDX.store(i as i64, std::sync::atomic::Ordering::Relaxed);
        arm_budget(budget);
        child_write(&format!("S {i}\n"));
        let mut m = Model::default();
        replay(&mut m);
        if unit.verbose {
            let threads = std::fs::read_dir("/proc/self/task").map(|d| d.count()).unwrap_or(0);
            child_write(&format!(
                "V model before: {} ; threads in process: {threads} ; live {:?} freed {:?}\n",
                m.key(),
                m.live.iter().map(|h| format!("{}@{:#x}", h.kind.name(), h.addr)).collect::<Vec<_>>(),
                m.freed.map(|f| format!("{}@{:#x}", f.1.name(), f.0))
            ));
        }
        child_write(&format!("B {i} {}\n", json!({"op": op.to_json(), "classes": arg_classes(&m, op)})));
        let t0 = std::time::Instant::now();
        let vd = exec(env, &mut m, op, true);
        let ns = t0.elapsed().as_nanos() as u64;
        let key = m.key();
        let full = m.live.len() > POOL;
        let mut v = vd.v;
        v.extend(epilogue(&mut m, op, true));
        for x in v.iter_mut() {
            x.1 = x.1.chars().take(500).collect();
        }
        let nontrivial = op.args.iter().any(|a| matches!(a, A::Slot(_) | A::Freed));
        child_write(&format!("E {i} {}\n", json!({"class": vd.class, "key": key, "viol": v, "overfull": full, "nt": nontrivial, "ns": ns})));
    }
    child_write("D\n");
    libc::_exit(0);
}

#[derive(Default)]
struct UnitResult {
    /// sequences of this unit with at least one violation (crash, hang or verdict)
    bad_sequences: usize,
    /// the unit was abandoned after UNIT_BAD_CAP violating sequences
    truncated: bool,
    /// memcheck (valgrind) reported an error in a child that ran this unit to completion: (pid log excerpt)
    memcheck: Vec<String>,
    /// every op announced (needed to refine a memcheck report to single calls)
    all_ops: Vec<Value>,
    /// a few executed calls with their observed class (for the evidence samples)
    examples: Vec<(Value, String)>,
    times: BTreeMap<String, (u64, u64)>,
    n_ops: usize,
    executed: u64,
    nontrivial: u64,
    outcomes: BTreeMap<String, u64>,
    /// (key, what, op)
    violations: Vec<(String, String, Value)>,
    /// (op, abstract state key after it)
    succ: Vec<(Value, String)>,
    log: Vec<String>,
}

/// Run one unit in forked children, restarting after every crash. Runs in the (single-threaded) worker process.
unsafe fn run_unit(env: &Env, unit: &Unit) -> UnitResult {
    let mut res = UnitResult::default();
    let mut seen_keys: BTreeSet<String> = BTreeSet::new();
    let mut start = 0usize;
    loop {
        if res.bad_sequences >= UNIT_BAD_CAP {
            res.truncated = true;
            break;
        }
        let mut fds = [0i32; 2];
        if libc::pipe(fds.as_mut_ptr()) != 0 {
            kit::ev::machinery("C31 worker: pipe failed");
        }
        let pid = libc::fork();
        if pid < 0 {
            kit::ev::machinery("C31 worker: fork failed");
        }
        if pid == 0 {
            libc::close(fds[0]);
            child_main(env, unit, start, fds[1]);
        }
        libc::close(fds[1]);
        let mut rd = LineReader { fd: fds[0], buf: vec![], eof: false };
        let budget_ms = (WALL_BUDGET_S.max(seq_budget_s() * 2) as i32) * 1000 + 15000;
        let mut killed_by_parent = false;
        let mut stop_unit = false;
        // the sequence being executed: (index, announced op + classes once the prefix is rebuilt)
        let mut started: Option<usize> = None;
        let mut announced: Option<(Value, String)> = None;
        let mut panic_msg: Option<String> = None;
        let mut done = false;
        loop {
            if res.bad_sequences >= UNIT_BAD_CAP {
                // enough evidence from this prefix; do not spend minutes on hundreds of hanging calls
                libc::kill(pid, libc::SIGKILL);
                stop_unit = true;
                res.truncated = true;
                break;
            }
            let line = match rd.next(budget_ms) {
                Got::Line(l) => l,
                Got::Eof => break,
                Got::Timeout => {
                    libc::kill(pid, libc::SIGKILL);
                    killed_by_parent = true;
                    break;
                }
            };
            let (tag, rest) = line.split_once(' ').unwrap_or((line.as_str(), ""));
            match tag {
                "N" => res.n_ops = rest.parse().unwrap_or(0),
                "S" => {
                    started = rest.parse().ok();
                    announced = None;
                    panic_msg = None;
                }
                "B" => {
                    let (_, body) = rest.split_once(' ').unwrap_or((rest, "null"));
                    let v: Value = serde_json::from_str(body).unwrap_or(Value::Null);
                    announced = Some((v["op"].clone(), v["classes"].as_str().unwrap_or("").to_string()));
                    res.all_ops.push(v["op"].clone());
                }
                "V" => res.log.push(rest.to_string()),
                "X" => {
                    let (_, body) = rest.split_once(' ').unwrap_or((rest, "null"));
                    let v: Value = serde_json::from_str(body).unwrap_or(Value::Null);
                    if v["harness"].as_bool() == Some(true) {
                        kit::ev::machinery(format!("C31: harness code panicked in a child: {v}"));
                    }
                    panic_msg = Some(format!("panic at {}: {}", v["loc"].as_str().unwrap_or(""), v["msg"].as_str().unwrap_or("")));
                }
                "E" => {
                    let (_, body) = rest.split_once(' ').unwrap_or((rest, "null"));
                    let v: Value = serde_json::from_str(body).unwrap_or(Value::Null);
                    let (op, _) = announced.take().unwrap_or((Value::Null, String::new()));
                    started = None;
                    res.executed += 1;
                    if v["nt"].as_bool() == Some(true) {
                        res.nontrivial += 1;
                    }
                    if let Some(f) = op["f"].as_str() {
                        let e = res.times.entry(f.to_string()).or_insert((0, 0));
                        e.0 += 1;
                        e.1 += v["ns"].as_u64().unwrap_or(0);
                    }
                    *res.outcomes.entry(v["class"].as_str().unwrap_or("?").to_string()).or_insert(0) += 1;
                    if v["viol"].as_array().map(|a| !a.is_empty()).unwrap_or(false) {
                        res.bad_sequences += 1;
                    }
                    for x in v["viol"].as_array().cloned().unwrap_or_default() {
                        res.violations.push((x[0].as_str().unwrap_or("").to_string(), x[1].as_str().unwrap_or("").to_string(), op.clone()));
                    }
                    if v["nt"].as_bool() == Some(true) && res.examples.len() < 2 && (res.executed % 7 == 3 || res.examples.is_empty()) {
                        res.examples.push((op.clone(), v["class"].as_str().unwrap_or("").to_string()));
                    }
                    if unit.verbose {
                        res.log.push(format!("{} => {} ; model after: {}", op, v["class"].as_str().unwrap_or(""), v["key"].as_str().unwrap_or("")));
                        for x in v["viol"].as_array().cloned().unwrap_or_default() {
                            res.log.push(format!("   VIOLATES [{}]: {}", x[0].as_str().unwrap_or(""), x[1].as_str().unwrap_or("")));
                        }
                    }
                    if unit.want_succ && v["overfull"].as_bool() != Some(true) {
                        let key = v["key"].as_str().unwrap_or("").to_string();
                        if !unit.dedup || seen_keys.insert(key.clone()) {
                            res.succ.push((op, key));
                        }
                    }
                }
                "D" => done = true,
                _ => {}
            }
        }
        drop(rd);
        let mut status = 0i32;
        libc::waitpid(pid, &mut status, 0);
        if stop_unit {
            break;
        }
        // under valgrind: an error seen by memcheck in that child turns its exit status into 97 and leaves a log file
        if let Ok(dir) = std::env::var("VERIF_C31_VGLOG") {
            let lf = format!("{dir}/vg-{pid}.log");
            if let Ok(txt) = std::fs::read_to_string(&lf) {
                let _ = std::fs::remove_file(&lf);
                if done && libc::WIFEXITED(status) && libc::WEXITSTATUS(status) == 97 {
                    res.memcheck.push(txt.lines().filter(|l| !l.trim().is_empty()).take(14).collect::<Vec<_>>().join(" | "));
                }
            }
        }
        if done {
            break;
        }
        if libc::WIFEXITED(status) && libc::WEXITSTATUS(status) == 101 {
            kit::ev::machinery("C31: harness panic in child (exit 101)");
        }
        let how = if killed_by_parent { format!("no progress for {}s (killed by the parent)", budget_ms / 1000) } else { sig_name(status) };
        let hang = killed_by_parent || how.starts_with("timeout");
        let verb = if hang { "hang" } else { "crash" };
        res.bad_sequences += 1;
        let panic_txt = panic_msg.as_ref().map(|p| format!(" — {p}")).unwrap_or_default();
        match (started, announced) {
            (Some(i), Some((op, argtxt))) => {
                // died inside the call under test (or its epilogue)
                res.executed += 1;
                let o = Op::from_json(&op);
                if o.as_ref().map(|o| o.args.iter().any(|a| matches!(a, A::Slot(_) | A::Freed))).unwrap_or(false) {
                    res.nontrivial += 1;
                }
                let fname = o.as_ref().map(|o| o.f.name()).unwrap_or("?");
                *res.outcomes.entry(format!("{fname} [{argtxt}] -> {} {how}", verb.to_uppercase())).or_insert(0) += 1;
                res.violations.push((
                    if hang { format!("hang fn={fname} args=[{argtxt}]") } else { format!("crash fn={fname} args=[{argtxt}] how={how}") },
                    if hang {
                        format!("{} did not finish within its budget of {}s CPU / 60s wall clock ({how}){panic_txt}", o.as_ref().map(|o| o.text()).unwrap_or_default(), seq_budget_s())
                    } else {
                        format!("the process died with {how} in {}{panic_txt}", o.as_ref().map(|o| o.text()).unwrap_or_default())
                    },
                    op.clone(),
                ));
                if unit.verbose {
                    res.log.push(format!("{op} => CRASH {how}{panic_txt}"));
                }
                if unit.only.is_some() {
                    break;
                }
                start = i + 1;
            }
            _ => {
                // died while rebuilding a prefix that ran without a crash one level up: a violation of its own; give up on the unit
                res.executed += 1;
                res.violations.push((
                    if hang { format!("hang phase=prefix-replay last={}", unit.prefix.last().map(|o| o.f.name()).unwrap_or("-")) } else { format!("crash phase=prefix-replay how={how} last={}", unit.prefix.last().map(|o| o.f.name()).unwrap_or("-")) },
                    format!("the process died with {how} while replaying a prefix that had run before: {}{panic_txt}", unit.prefix.iter().map(|o| o.text()).collect::<Vec<_>>().join(" ; ")),
                    unit.prefix.last().map(|o| o.to_json()).unwrap_or(Value::Null),
                ));
                break;
            }
        }
    }
    res
}

/// Entry of a worker subprocess: units come from the file named by VERIF_C31_WORKER, results go to stdout (one JSON line per unit).
fn worker_main(spec_path: &str) -> ! {
    let data = std::fs::read_to_string(spec_path).unwrap_or_else(|e| kit::ev::machinery(format!("C31 worker: cannot read {spec_path}: {e}")));
    let env = Env::new();
    let out = std::io::stdout();
    for line in data.lines() {
        if line.trim().is_empty() {
            continue;
        }
        let v: Value = serde_json::from_str(line).unwrap_or_else(|e| kit::ev::machinery(format!("C31 worker: bad unit: {e}")));
        let unit = Unit::from_json(&v["unit"]);
        let mut r = unsafe { run_unit(&env, &unit) };
        if !r.memcheck.is_empty() && unit.only.is_none() {
            // find the exact call(s): run every call of the unit alone
            let ops = std::mem::take(&mut r.all_ops);
            let mut found = false;
            for op in ops {
                let Some(o) = Op::from_json(&op) else { continue };
                let single = Unit { only: Some(o.clone()), want_succ: false, verbose: false, ..unit.clone() };
                let rs = unsafe { run_unit(&env, &single) };
                for txt in rs.memcheck {
                    found = true;
                    let top = txt.split(" | ").next().unwrap_or("").split("== ").last().unwrap_or("").to_string();
                    r.violations.push((
                        format!("memcheck fn={} args=[{}] error={}", o.f.name(), o.args.iter().map(|a| a.name().trim_end_matches(char::is_numeric).to_string()).collect::<Vec<_>>().join(","), top),
                        format!("valgrind memcheck reports an error while executing {}: {}", o.text(), txt.chars().take(700).collect::<String>()),
                        op.clone(),
                    ));
                }
            }
            if !found {
                let txt = r.memcheck.join(" || ");
                r.violations.push((
                    format!("memcheck unattributed after={}", unit.prefix.last().map(|o| o.f.name()).unwrap_or("-")),
                    format!("valgrind memcheck reports an error somewhere in the calls enabled after this history, not reproducible call by call: {}", txt.chars().take(700).collect::<String>()),
                    Value::Null,
                ));
            }
        }
        let j = json!({
            "id": v["id"],
            "n_ops": r.n_ops,
            "executed": r.executed,
            "nontrivial": r.nontrivial,
            "bad": r.bad_sequences,
            "truncated": r.truncated,
            "examples": r.examples.iter().map(|(o, c)| json!([o, c])).collect::<Vec<_>>(),
            "times": r.times.iter().map(|(k, v)| (k.clone(), json!([v.0, v.1]))).collect::<serde_json::Map<String, Value>>(),
            "outcomes": r.outcomes,
            "violations": r.violations.iter().map(|(k, w, o)| json!([k, w, o])).collect::<Vec<_>>(),
            "succ": r.succ.iter().map(|(o, k)| json!([o, k])).collect::<Vec<_>>(),
            "log": r.log,
        });
        let mut g = out.lock();
        let _ = writeln!(g, "{j}");
        let _ = g.flush();
    }
    std::process::exit(0);
}

// ------------------------------------------------------------------------------------------------
// parent side
// ------------------------------------------------------------------------------------------------

/// One violation per key (first case found, smallest history first by construction) with the number of cases.
static DEDUP: Mutex<BTreeMap<String, (String, Value, u64)>> = Mutex::new(BTreeMap::new());

fn dedup_flush(run: &Run) {
    for (k, (what, case, n)) in DEDUP.lock().unwrap().iter() {
        run.violation(k.clone(), format!("{what} [{n} sequence(s) with this key in this run]"), case.clone());
    }
}

struct LevelResult {
    times: BTreeMap<String, (u64, u64)>,
    executed: u64,
    nontrivial: u64,
    /// per unit id: successors (op, key)
    succ: BTreeMap<usize, Vec<(Op, String)>>,
}

/// Distribute units over worker subprocesses and collect the results.
fn run_units(run: &Run, units: &[Unit], judge_into_run: bool) -> LevelResult {
    run_units_opt(run, units, judge_into_run, false)
}

/// `memcheck`: run the workers (and therefore every child they fork) under valgrind memcheck.
fn run_units_opt(run: &Run, units: &[Unit], judge_into_run: bool, memcheck: bool) -> LevelResult {
    let nworkers = par::workers().min(units.len().max(1));
    let dir = tempfile::Builder::new().prefix("verif-c31-").tempdir_in("/tmp").unwrap_or_else(|e| kit::ev::machinery(format!("tempdir: {e}")));
    let exe = std::env::current_exe().unwrap_or_else(|e| kit::ev::machinery(format!("current_exe: {e}")));
    let result = Mutex::new(LevelResult { times: BTreeMap::new(), executed: 0, nontrivial: 0, succ: BTreeMap::new() });
    // round-robin, so that expensive neighbouring units are spread
    let mut files = vec![];
    for w in 0..nworkers {
        let mut s = String::new();
        for (id, u) in units.iter().enumerate() {
            if id % nworkers == w {
                s.push_str(&json!({"id": id, "unit": u.to_json()}).to_string());
                s.push('\n');
            }
        }
        let p = dir.path().join(format!("units-{w}.jsonl"));
        std::fs::write(&p, s).unwrap_or_else(|e| kit::ev::machinery(format!("write units: {e}")));
        files.push(p);
    }
    std::thread::scope(|sc| {
        for (w, p) in files.iter().enumerate() {
            let (exe, result, dir) = (&exe, &result, &dir);
            sc.spawn(move || {
                let mut cmd = if memcheck {
                    let mut c = Command::new("valgrind");
                    c.args(["-q", "--error-exitcode=97", "--leak-check=no", "--trace-children=no"])
                        .arg(format!("--log-file={}/vg-%p.log", dir.path().display()))
                        .arg(exe)
                        .env("VERIF_C31_VGLOG", dir.path());
                    c
                } else {
                    Command::new(exe)
                };
                let mut child = cmd
                    .arg("C31")
                    .env("VERIF_C31_WORKER", p)
                    .env("MALLOC_PERTURB_", "165")
                    .stdin(Stdio::null())
                    .stdout(Stdio::piped())
                    .stderr(Stdio::null())
                    .spawn()
                    .unwrap_or_else(|e| kit::ev::machinery(format!("cannot spawn worker: {e}")));
                WORKER_PIDS.lock().unwrap().push(child.id());
                if stopped() {
                    let _ = child.kill();
                }
                let so = child.stdout.take().unwrap_or_else(|| kit::ev::machinery("worker stdout"));
                let mut got = 0usize;
                for line in BufReader::new(so).lines() {
                    if stopped() {
                        let _ = child.kill();
                        break;
                    }
                    let Ok(line) = line else { break };
                    let Ok(v) = serde_json::from_str::<Value>(&line) else { continue };
                    got += 1;
                    if judge_into_run {
                        let total = BAD_TOTAL.fetch_add(v["bad"].as_u64().unwrap_or(0), std::sync::atomic::Ordering::Relaxed) + v["bad"].as_u64().unwrap_or(0);
                        if total >= STOP_SEQUENCES {
                            trip_stop();
                        }
                    }
                    let id = v["id"].as_u64().unwrap_or(0) as usize;
                    let unit = &units[id];
                    let mut g = result.lock().unwrap();
                    g.executed += v["executed"].as_u64().unwrap_or(0);
                    g.nontrivial += v["nontrivial"].as_u64().unwrap_or(0);
                    for (k, x) in v["times"].as_object().cloned().unwrap_or_default() {
                        let e = g.times.entry(k).or_insert((0, 0));
                        e.0 += x[0].as_u64().unwrap_or(0);
                        e.1 += x[1].as_u64().unwrap_or(0);
                    }
                    if judge_into_run {
                        for (k, n) in v["outcomes"].as_object().cloned().unwrap_or_default() {
                            run.outcome_n(k, n.as_u64().unwrap_or(0));
                        }
                        for x in v["violations"].as_array().cloned().unwrap_or_default() {
                            let mut h = unit.prefix.clone();
                            if !x[0].as_str().unwrap_or("").contains("phase=prefix-replay") {
                                if let Some(o) = Op::from_json(&x[2]) {
                                    h.push(o);
                                }
                            }
                            let mut d = DEDUP.lock().unwrap();
                            let e = d.entry(x[0].as_str().unwrap_or("").to_string()).or_insert_with(|| (x[1].as_str().unwrap_or("").to_string(), json!({"history": hist_json(&h)}), 0));
                            e.2 += 1;
                            // keep the shortest witness
                            if h.len() < e.1["history"].as_array().map(|a| a.len()).unwrap_or(usize::MAX) {
                                e.0 = x[1].as_str().unwrap_or("").to_string();
                                e.1 = json!({"history": hist_json(&h)});
                            }
                        }
                    }
                    if judge_into_run && unit.prefix.len() >= 2 && id % 17 == 0 {
                        for x in v["examples"].as_array().cloned().unwrap_or_default() {
                            let mut h: Vec<String> = unit.prefix.iter().map(|o| o.text()).collect();
                            if let Some(o) = Op::from_json(&x[0]) {
                                h.push(o.text());
                            }
                            run.sample(json!({"history": h, "observed_last_call": x[1]}));
                        }
                    }
                    if judge_into_run && DEDUP.lock().unwrap().len() >= STOP_KEYS {
                        trip_stop();
                    }
                    for l in v["log"].as_array().cloned().unwrap_or_default() {
                        println!("  {}", l.as_str().unwrap_or(""));
                    }
                    let s: Vec<(Op, String)> = v["succ"].as_array().cloned().unwrap_or_default().iter().filter_map(|x| Some((Op::from_json(&x[0])?, x[1].as_str()?.to_string()))).collect();
                    g.succ.insert(id, s);
                }
                let st = child.wait();
                WORKER_PIDS.lock().unwrap().retain(|p| *p != child.id());
                let expected = (0..units.len()).filter(|id| id % nworkers == w).count();
                if stopped() {
                    return;
                }
                if got != expected || !st.map(|s| s.success()).unwrap_or(false) {
                    kit::ev::machinery(format!("C31: worker for {} returned {got}/{expected} unit results (a worker itself must never die)", p.display()));
                }
            });
        }
    });
    result.into_inner().unwrap()
}

/// Targeted shapes (unreduced): for every handle kind K
///   [constructors] · [any borrowing call on h] · [any consuming call on h, succeeding or failing] · [any borrowing call or free on the stale h]
/// and the same with one unrelated call (c2pa_version) before or after the consuming call. A library that remembers
/// "h was valid a moment ago" anywhere outside the registry is caught here; the BFS alone would merge the histories.
fn targeted_units() -> Vec<Unit> {
    let s = |f: F, a: Vec<A>| Op { f, args: a };
    // (constructor of h, its kind)
    let subjects: Vec<(Op, Kd)> = vec![
        (s(F::SettingsNew, vec![]), Kd::Settings),
        (s(F::CtxBuilderNew, vec![]), Kd::CtxBuilder),
        (s(F::ContextNew, vec![]), Kd::Context),
        (s(F::ReaderNew, vec![]), Kd::Reader),
        (s(F::ReaderFromStream, vec![A::Amb]), Kd::Reader),
        (s(F::BuilderFromJson, vec![]), Kd::Builder),
        (s(F::SignerFromInfo, vec![]), Kd::Signer),
        (s(F::ResolverCreate, vec![]), Kd::Resolver),
        (s(F::Version, vec![]), Kd::Str),
        (s(F::Ed25519Sign, vec![]), Kd::Bytes),
    ];
    // an optional helper handle created first, so that two-handle calls can validate h
    let helpers: Vec<Option<(Op, Kd)>> = vec![
        None,
        Some((s(F::CtxBuilderNew, vec![]), Kd::CtxBuilder)),
        Some((s(F::BuilderFromJson, vec![]), Kd::Builder)),
        Some((s(F::SettingsNew, vec![]), Kd::Settings)),
        Some((s(F::SignerFromInfo, vec![]), Kd::Signer)),
    ];
    let hd = |addr: usize, kind: Kd| Hd { addr, kind, loaded: false, st: St::Live };
    let mut units = vec![];
    for (ctor, k) in &subjects {
        for helper in &helpers {
            let mut live = vec![];
            let mut prefix = vec![];
            if let Some((hop, hk)) = helper {
                live.push(hd(0x1000, *hk));
                prefix.push(hop.clone());
            }
            live.push(hd(0x2000, *k));
            prefix.push(ctor.clone());
            let h = (live.len() - 1) as u8;
            let before = Model { live: live.clone(), freed: None, last_validated: None };
            let uses_helper = |o: &Op| helper.is_some() && o.args.iter().any(|a| *a == A::Slot(0));
            let all = before.enabled();
            let borrows: Vec<&Op> = all
                .iter()
                .filter(|o| {
                    let ps = o.f.params();
                    let on_h = o.args.iter().enumerate().any(|(j, a)| *a == A::Slot(h) && matches!(ps[j], P::H(kk, Consume::No) if kk == *k));
                    let consumes_h = o.args.iter().enumerate().any(|(j, a)| *a == A::Slot(h) && matches!(ps[j], P::Any | P::H(_, Consume::OnSuccess | Consume::Always)));
                    let others_ok = o.args.iter().enumerate().all(|(j, a)| *a == A::Slot(h) || *a == A::Null || before.validity(ps[j], *a) == Validity::Valid);
                    on_h && !consumes_h && others_ok
                })
                .collect();
            let consumes: Vec<&Op> = all
                .iter()
                .filter(|o| {
                    let ps = o.f.params();
                    // the other arguments: valid or NULL (the failing forms); the remaining misuse classes of the other
                    // arguments are covered by the BFS and add nothing to this shape
                    o.args.iter().enumerate().all(|(j, a)| *a == A::Slot(h) || *a == A::Null || before.validity(ps[j], *a) == Validity::Valid) && o.args.iter().enumerate().any(|(j, a)| {
                        *a == A::Slot(h)
                            && match ps[j] {
                                // the typed frees all go through the same cimpl_free; two of them stand for the family here
                                P::Any => matches!(o.f, F::Free | F::ReaderFree),
                                P::H(kk, Consume::OnSuccess | Consume::Always) => kk == *k,
                                _ => false,
                            }
                    })
                })
                .collect();
            // calls on the stale address afterwards
            let mut after_live = live.clone();
            after_live.pop();
            let after = Model { live: after_live, freed: Some((0x2000, *k)), last_validated: None };
            let finals: Vec<Op> = after
                .enabled()
                .into_iter()
                .filter(|o| {
                    let ps = o.f.params();
                    o.args.iter().enumerate().any(|(j, a)| {
                        *a == A::Freed
                            && match ps[j] {
                                P::Any => o.f == F::Free,
                                P::H(kk, _) => kk == *k,
                                P::S(_) => false,
                            }
                    })
                })
                .collect();
            if finals.is_empty() {
                continue;
            }
            if std::env::var("VERIF_C31_DEBUG").is_ok() {
                eprintln!("targeted setup {:?} helper {:?}: borrows {} consumes {} finals {}", ctor.f.name(), helper.as_ref().map(|h| h.0.f.name()), borrows.len(), consumes.len(), finals.len());
                eprintln!("   consumes: {:?}", consumes.iter().map(|o| o.text()).collect::<Vec<_>>());
            }
            for b in &borrows {
                for c in &consumes {
                    if helper.is_some() && !(uses_helper(b) || uses_helper(c)) {
                        continue; // already covered without the helper
                    }
                    let u = s(F::Version, vec![]);
                    // the variants with an unrelated call in between: for the first two borrowing calls of each setup
                    let nvar = if borrows.iter().position(|x| x == b).unwrap_or(9) < 2 { 3 } else { 1 };
                    for variant in 0..nvar {
                        let mut p = prefix.clone();
                        p.push((*b).clone());
                        if variant == 1 {
                            p.push(u.clone());
                        }
                        p.push((*c).clone());
                        if variant == 2 {
                            p.push(u.clone());
                        }
                        units.push(Unit { prefix: p, only: None, want_succ: false, dedup: false, verbose: false, core: false, ops: finals.clone() });
                    }
                }
            }
        }
    }
    units
}

pub fn run(run: &Run, replay: Option<&Value>) {
    if let Ok(spec) = std::env::var("VERIF_C31_WORKER") {
        worker_main(&spec);
    }
    run.rule("call histories over 65 exported C functions; every pointer argument from {each live handle (right/wrong type), last freed address, NULL, foreign heap block}, stream arguments from {fresh stream, live non-stream handle, released stream, NULL, foreign}, one deviating argument per call, pool <= 3. \
              (1) all sequences over a 22-function core alphabet to depth 2 (quick) / 3 (thorough) unreduced, thorough also all sequences over the full alphabet to depth 2; (1c) every sequence [constructors][borrowing call on h][consuming call on h, ok or failing][call on the stale h] for every handle kind, also with one unrelated call in between; (2) BFS to depth 3 (quick) / 5 (thorough) with one representative history per abstract model state (pool kinds, statuses, kind of the freed address, which handle was validated last); every sequence closed by an epilogue freeing all model-live handles twice; thorough re-executes the BFS sequences of length <= 3 under valgrind memcheck. \
              non-trivial = executed sequences whose last call has at least one handle argument (valid or not) taken from a non-empty pool or the freed address, i.e. whose verdict depends on the history");
    run.assume("c2pa_free(NULL) and the typed free functions with NULL are documented no-ops (return 0, no error); they are not counted as 'invalid argument'");
    run.assume("typed free functions (c2pa_reader_free, ...) return void and are documented as equivalent to c2pa_free: given a live handle of another type they release it; for void functions the error indicator is the presence of a fresh c2pa_error()");
    run.assume("when a call that consumes an argument on success fails, the status of that argument is unspecified (c2pa_context_builder_set_signer, c2pa_context_builder_set_http_resolver, c2pa_identity_signer_create); the next use decides. Functions documented to invalidate their first argument in every case (reader/builder with_*, context_builder_build) are modelled that way");
    run.assume("function-pointer arguments are always valid functions; non-handle pointers (strings, out-pointers, byte buffers) are always valid; explored sequentially in one thread");
    run.assume("every sequence has a CPU budget of 2 s (120 s under valgrind; ITIMER_PROF) and a wall-clock budget of 60 s (alarm(2) in the child, SIGKILL from its parent after 75 s without progress); exceeding it is reported as `hang`. A prefix is abandoned after 8 violating sequences and the whole run stops (marked non-exhaustive) after 25 distinct violation keys or 200 violating sequences");
    run.assume("library linked as rlib into the harness with debug assertions and overflow checks on (profile of the whole harness), glibc malloc with MALLOC_PERTURB_ so that use-after-free reads garbage");

    if let Some(c) = replay {
        let h = hist_from_json(&c["history"]);
        if c["expand"].as_bool() == Some(true) {
            // cost probe: every call enabled after the given history, as one unit (not a verdict)
            let t0 = std::time::Instant::now();
            let r = run_units(run, &[Unit { prefix: h, only: None, want_succ: false, dedup: false, verbose: c["verbose"].as_bool() == Some(true), core: false, ops: vec![] }], true);
            println!("expanded {} calls in {:.2}s", r.executed, t0.elapsed().as_secs_f64());
            dedup_flush(run);
            run.evals(r.executed);
            run.states(1);
            run.transitions(r.executed);
            return;
        }
        if h.is_empty() {
            kit::ev::machinery("C31 replay: empty history");
        }
        run.eval();
        let unit = Unit { prefix: h[..h.len() - 1].to_vec(), only: Some(h[h.len() - 1].clone()), want_succ: false, dedup: false, verbose: true, core: false, ops: vec![] };
        println!("history: {}", h.iter().map(|o| o.text()).collect::<Vec<_>>().join(" ; "));
        run_units(run, &[unit], true);
        dedup_flush(run);
        run.states(1);
        run.transitions(1);
        return;
    }

    // ---- machinery baseline: a fully valid history must work, twice, identically ----
    {
        let s = |f: F, a: Vec<A>| Op { f, args: a };
        let base = vec![s(F::BuilderFromJson, vec![]), s(F::SignerFromInfo, vec![])];
        let probe = s(F::BuilderSign, vec![A::Slot(0), A::Amb, A::Amb, A::Slot(1)]);
        let u = Unit { prefix: base, only: Some(probe), want_succ: true, dedup: false, verbose: false, core: false, ops: vec![] };
        let collect = |u: &Unit| {
            let r = run_units(run, &[u.clone()], false);
            r.succ.get(&0).cloned().unwrap_or_default()
        };
        let a = collect(&u);
        let b = collect(&u);
        if a.len() != 1 || a != b {
            kit::ev::machinery(format!("C31: baseline (builder_from_json; signer_from_info; builder_sign) not deterministic or crashed: {a:?} vs {b:?}"));
        }
        if !a[0].1.contains("bytes") {
            kit::ev::machinery(format!("C31: baseline sign did not produce manifest bytes (state {})", a[0].1));
        }
    }

    if std::env::var("VERIF_C31_DEBUG").is_ok() {
        let u = targeted_units();
        eprintln!("targeted: {} units, {} sequences", u.len(), u.iter().map(|x| x.ops.len()).sum::<usize>());
        std::process::exit(0);
    }
    if std::env::var("VERIF_C31_MEMCHECK_TEST").is_ok() {
        // development aid: only the memcheck machinery, on two small units
        let s = |f: F, a: Vec<A>| Op { f, args: a };
        let units = vec![
            Unit { prefix: vec![], only: None, want_succ: false, dedup: false, verbose: false, core: true, ops: vec![] },
            Unit { prefix: vec![s(F::ReaderFromStream, vec![A::Amb])], only: None, want_succ: false, dedup: false, verbose: false, core: true, ops: vec![] },
        ];
        let r = run_units_opt(run, &units, true, true);
        println!("memcheck test: {} sequences", r.executed);
        run.evals(r.executed);
        run.states(1);
        run.transitions(r.executed);
        dedup_flush(run);
        return;
    }
    let d_full: usize = run.tier.pick(0, 2);
    let d_core: usize = run.tier.pick(2, 3);
    let d_bfs: usize = run.tier.pick(3, 5);
    let mut total_states: BTreeSet<String> = BTreeSet::new();
    total_states.insert(Model::default().key());
    // distinct sequences (a lower bound): all of phase (1); of phase (1b) those longer than d_full; of phase (2) those longer than
    // both unreduced depths (shorter ones may repeat sequences of the unreduced phases)
    let mut distinct_sequences = 0u64;
    let mut distinct_nontrivial = 0u64;
    let mut times: BTreeMap<String, (u64, u64)> = BTreeMap::new();
    let mut memcheck_prefixes: Vec<Vec<Op>> = vec![];

    // ---- (1) unreduced: every sequence to depth d_full ----
    if d_full > 0 {
        let mut frontier: Vec<Vec<Op>> = vec![vec![]];
        let mut count = 0u64;
        for depth in 1..=d_full {
            if stopped() {
                break;
            }
            let last = depth == d_full;
            let units: Vec<Unit> = frontier.iter().map(|h| Unit { prefix: h.clone(), only: None, want_succ: !last, dedup: false, verbose: false, core: false, ops: vec![] }).collect();
            let r = run_units(run, &units, true);
            for (k, v) in &r.times {
                let e = times.entry(k.clone()).or_insert((0, 0));
                e.0 += v.0;
                e.1 += v.1;
            }
            count += r.executed;
            distinct_sequences += r.executed;
            distinct_nontrivial += r.nontrivial;
            run.evals(r.executed);
            let mut next = vec![];
            for (id, succ) in &r.succ {
                for (op, key) in succ {
                    total_states.insert(key.clone());
                    let mut h = units[*id].prefix.clone();
                    h.push(op.clone());
                    next.push(h);
                }
            }
            println!("C31 unreduced depth {depth}: {} prefixes expanded, {} sequences executed", units.len(), r.executed);
            frontier = next;
        }
        run.space(&format!("every call sequence up to depth {d_full} (no reduction)"), count, true);
    }

    // ---- (1b) unreduced over the core alphabet (22 functions) to depth d_core; only the sequences of length d_core are new ----
    if d_core > d_full {
        let mut frontier: Vec<Vec<Op>> = vec![vec![]];
        let mut count = 0u64;
        for depth in 1..=d_core {
            if stopped() {
                break;
            }
            let last = depth == d_core;
            let units: Vec<Unit> = frontier.iter().map(|h| Unit { prefix: h.clone(), only: None, want_succ: !last, dedup: false, verbose: false, core: true, ops: vec![] }).collect();
            let r = run_units(run, &units, depth > d_full);
            for (k, v) in &r.times {
                let e = times.entry(k.clone()).or_insert((0, 0));
                e.0 += v.0;
                e.1 += v.1;
            }
            count += r.executed;
            run.evals(r.executed);
            if depth > d_full {
                distinct_sequences += r.executed;
                distinct_nontrivial += r.nontrivial;
            }
            let mut next = vec![];
            for (id, succ) in &r.succ {
                for (op, key) in succ {
                    total_states.insert(key.clone());
                    let mut h = units[*id].prefix.clone();
                    h.push(op.clone());
                    next.push(h);
                }
            }
            println!("C31 core-alphabet depth {depth}: {} prefixes expanded, {} sequences executed", units.len(), r.executed);
            frontier = next;
        }
        run.space(&format!("every call sequence over the 22-function core alphabet up to depth {d_core} (no reduction)"), count, true);
    }

    // ---- (1c) targeted use / consume / use-again shapes, unreduced (both tiers) ----
    if !stopped() {
        let units = targeted_units();
        let r = run_units(run, &units, true);
        for (k, v) in &r.times {
            let e = times.entry(k.clone()).or_insert((0, 0));
            e.0 += v.0;
            e.1 += v.1;
        }
        run.evals(r.executed);
        distinct_sequences += r.executed;
        distinct_nontrivial += r.nontrivial;
        println!("C31 targeted borrow/consume/borrow-stale shapes: {} prefixes, {} sequences executed", units.len(), r.executed);
        run.space(
            "for every handle kind: [constructors] x [every borrowing call on h] x [every consuming call on h, succeeding or failing] x [every borrowing call / c2pa_free on the stale h], for the first two borrowing calls of each setup also with c2pa_version() before or after the consuming call (no reduction)",
            r.executed,
            true,
        );
        if let Some(u) = units.iter().find(|u| u.prefix.len() >= 3) {
            run.sample(json!({"targeted_prefix": u.prefix.iter().map(|o| o.text()).collect::<Vec<_>>(), "then_each_of": u.ops.iter().take(4).map(|o| o.text()).collect::<Vec<_>>()}));
        }
    }

    // ---- (2) BFS over abstract states to depth d_bfs ----
    {
        let mut seen: BTreeMap<String, Vec<Op>> = BTreeMap::new();
        seen.insert(Model::default().key(), vec![]);
        let mut frontier: Vec<Vec<Op>> = vec![vec![]];
        let mut count = 0u64;
        for depth in 1..=d_bfs {
            if frontier.is_empty() || stopped() {
                break;
            }
            let last = depth == d_bfs;
            let units: Vec<Unit> = frontier.iter().map(|h| Unit { prefix: h.clone(), only: None, want_succ: !last, dedup: true, verbose: false, core: false, ops: vec![] }).collect();
            // sequences of length <= d_full were already judged (and their outcomes counted) in phase (1)
            let r = run_units(run, &units, depth > d_full);
            for (k, v) in &r.times {
                let e = times.entry(k.clone()).or_insert((0, 0));
                e.0 += v.0;
                e.1 += v.1;
            }
            count += r.executed;
            run.evals(r.executed);
            if depth > d_full.max(d_core) {
                distinct_sequences += r.executed;
                distinct_nontrivial += r.nontrivial;
            }
            let mut next = vec![];
            for (id, succ) in &r.succ {
                for (op, key) in succ {
                    if !seen.contains_key(key) {
                        let mut h = units[*id].prefix.clone();
                        h.push(op.clone());
                        seen.insert(key.clone(), h.clone());
                        if depth <= 2 && next.len() < 3 {
                            run.sample(json!({"representative_history": h.iter().map(|o| o.text()).collect::<Vec<_>>(), "abstract_state": key}));
                        }
                        next.push(h);
                    }
                }
            }
            println!("C31 bfs depth {depth}: {} representative states expanded, {} sequences executed, {} new abstract states", units.len(), r.executed, next.len());
            frontier = next;
        }
        for k in seen.keys() {
            total_states.insert(k.clone());
        }
        run.space(&format!("BFS to depth {d_bfs}: every enabled call in every abstract model state reached (one representative history per state)"), count, true);
        run.extra("abstract_states_bfs", json!(seen.len()));
        memcheck_prefixes = seen.values().filter(|h| h.len() <= 2).cloned().collect();
        run.extra(
            "deepest_representatives",
            json!(seen.values().filter(|h| h.len() + 1 >= d_bfs).take(5).map(|h| h.iter().map(|o| o.text()).collect::<Vec<_>>()).collect::<Vec<_>>()),
        );
    }
    {
        let mut t: Vec<(&String, &(u64, u64))> = times.iter().collect();
        t.sort_by_key(|x| std::cmp::Reverse(x.1 .1));
        run.extra(
            "library_time_by_function_top",
            json!(t.iter().take(12).map(|(k, v)| json!({"fn": k, "calls": v.0, "total_ms": v.1 / 1_000_000, "mean_us": v.1 / 1000 / v.0.max(1)})).collect::<Vec<_>>()),
        );
    }
    // ---- (3) thorough: the BFS sequences of length <= 3 again under valgrind memcheck (silent use-after-free / double free) ----
    if run.tier.is_thorough() && !stopped() {
        let have = Command::new("valgrind").arg("--version").stdout(Stdio::null()).stderr(Stdio::null()).status().map(|s| s.success()).unwrap_or(false);
        if have {
            // baseline: a unit of valid calls must be clean, otherwise memcheck noise would be blamed on the library
            let s = |f: F, a: Vec<A>| Op { f, args: a };
            let base = Unit { prefix: vec![s(F::BuilderFromJson, vec![]), s(F::SignerFromInfo, vec![])], only: Some(s(F::BuilderSign, vec![A::Slot(0), A::Amb, A::Amb, A::Slot(1)])), want_succ: false, dedup: false, verbose: false, core: false, ops: vec![] };
            let before = DEDUP.lock().unwrap().keys().filter(|k| k.starts_with("memcheck")).count();
            run_units_opt(run, &[base], true, true);
            let after = DEDUP.lock().unwrap().keys().filter(|k| k.starts_with("memcheck")).count();
            if after != before {
                kit::ev::machinery("C31: valgrind reports errors on a fully valid sign sequence; memcheck pass cannot be trusted");
            }
            let units: Vec<Unit> = memcheck_prefixes.iter().map(|h| Unit { prefix: h.clone(), only: None, want_succ: false, dedup: false, verbose: false, core: false, ops: vec![] }).collect();
            let r = run_units_opt(run, &units, true, true);
            run.evals(r.executed);
            run.space("memcheck: every enabled call after every BFS representative history of length <= 2, re-executed under valgrind", r.executed, true);
            println!("C31 memcheck: {} units, {} sequences re-executed under valgrind", units.len(), r.executed);
        } else {
            run.assume("valgrind is not installed: the memcheck re-execution of the thorough tier was skipped");
        }
    }
    if stopped() {
        run.cap_hit(&format!(
            "exploration stopped early after {} distinct violation keys / {} violating sequences (limits {STOP_KEYS} / {STOP_SEQUENCES}); the remaining space was not explored",
            DEDUP.lock().unwrap().len(),
            BAD_TOTAL.load(std::sync::atomic::Ordering::Relaxed)
        ));
    }
    dedup_flush(run);
    run.states(total_states.len() as u64);
    run.transitions(distinct_sequences);
    run.traces(distinct_sequences);
    run.nontrivial_n(distinct_nontrivial);
}

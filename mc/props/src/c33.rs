//! C33 — CAWG identity assertions bind exactly the referenced assertions.
//!
//! S-inp. A tiny JPEG is signed with an X.509 identity assertion over every subset of 3 referenceable custom assertions
//! (`create_signer::from_x509_identity`, and the same flow re-assembled from the public identity builder API so that a
//! tampering step can be inserted). Tampering happens BEFORE the C2PA claim is signed (the C2PA manifest stays intact):
//! a wrapping `DynamicAssertion` takes the genuine identity assertion CBOR and
//!   * alters byte k of the identity signature (COSE_Sign1) for EVERY k,
//!   * alters the signer payload (hash / url of every referenced entry, drop / add / duplicate an entry, sig_type, role),
//!   * signs an ALTERED payload validly with the identity credential (the "referenced assertion changed" situation:
//!     hash or url of an entry no longer matches the claim, hard binding dropped, entry duplicated),
//!   * sets every single byte of pad1 / pad2 to a non-zero value, or re-distributes the (all-zero) padding,
//!   * damages the assertion structure (field renamed / retyped) while keeping it the same length,
//! always re-padding so that the assertion keeps its reserved size. Each result is read twice: through the default
//! Reader (identity assertions validated while parsing) and with `core.decode_identity_assertions=false` +
//! `Reader::post_validate_async(CawgValidator)` driven by a hand-rolled block_on.
//! Oracle: untampered => a cawg.* success code and no cawg.* failure; each tampering => some cawg.* failure code;
//! the C2PA state is Valid/Trusted in all cases.
//!
//! Mutants caught (tools/mutant_run.sh I <diff> C33 quick):
//!   /tmp/seed-C33/OUT/patch.diff (independently seeded: zip/fold hash comparison without a length check) -> keys `unreported tamper=signed-hash-length-*`
//!   /verif/mutants/C33-partial-claim-labels-only.diff (check_against_partial_claim compares only labels)
//!   /verif/mutants/C33-padding-unchecked.diff         (check_padding accepts any bytes)

use c2pa::{
    dynamic_assertion::{DynamicAssertion, DynamicAssertionContent, PartialClaim},
    identity::{
        builder::{CredentialHolder, IdentityAssertionBuilder, IdentityBuilderError},
        validator::CawgValidator,
        x509::X509CredentialHolder,
        SignerPayload,
    },
    Builder, BuilderIntent, HashedUri, RawSigner, RawSignerError, Reader, Signer, SigningAlg,
};
use kit::{cbor, cbor::V, par, sdk, Run};
use serde_json::{json, Value};
use std::{io::Cursor, sync::Mutex};

const MIME: &str = "image/jpeg";
const REFS: [&str; 3] = ["org.verif.r0", "org.verif.r1", "org.verif.r2"];
const C2PA_ALG: &str = "ed25519";
const ID_ALG: &str = "ed25519";

fn definition() -> String {
    json!({"title":"cawg","claim_generator_info":[{"name":"verif","version":"1"}],
        "assertions":[
            {"label":REFS[0],"data":{"v":"zero"}},
            {"label":REFS[1],"data":{"v":"one"}},
            {"label":REFS[2],"data":{"v":"two"}},
            {"label":"org.verif.unreferenced","data":{"v":"other"}}
        ]})
    .to_string()
}

// ---------------------------------------------------------------------------------------------------
// tampering alphabet
// ---------------------------------------------------------------------------------------------------
#[derive(Clone, Debug, PartialEq)]
enum Tamper {
    None,
    /// re-encode the payload through the harness codec without changing it (harness control)
    ReencodeOnly,
    SigByte { k: usize, x: u8 },
    /// after-signature edits of the signer payload
    PayloadHashFlip { j: usize },
    PayloadUrlSwap { j: usize },
    PayloadDrop { j: usize },
    PayloadAddUnreferenced,
    PayloadDuplicate { j: usize },
    PayloadSigType,
    PayloadAddRole,
    /// validly signed altered payloads
    SignedHashFlip { j: usize },
    /// validly signed payload whose entry j carries the claim's hash at another LENGTH: kind 0..3 = truncated to 0, 1, n/2, n-1 bytes; 4, 5 = extended by 1, n bytes
    SignedHashLen { j: usize, kind: u8 },
    SignedUrlUnknown { j: usize },
    SignedDropHardBinding,
    SignedDuplicate { j: usize },
    Pad1Byte { j: usize },
    Pad2Byte { j: usize },
    /// move n zero bytes from pad1 to pad2 (still all zero): no expectation, recorded
    PadShift { n: usize },
    /// same-length structural damage
    RenameKey { key: &'static str },
    RetypeSignatureAsText,
    RetypePad1AsText,
}

impl Tamper {
    fn class(&self) -> String {
        match self {
            Tamper::None => "none".into(),
            Tamper::ReencodeOnly => "reencode-only".into(),
            Tamper::SigByte { .. } => "sigbyte".into(),
            Tamper::PayloadHashFlip { .. } => "payload-hash".into(),
            Tamper::PayloadUrlSwap { .. } => "payload-url".into(),
            Tamper::PayloadDrop { .. } => "payload-drop".into(),
            Tamper::PayloadAddUnreferenced => "payload-add".into(),
            Tamper::PayloadDuplicate { .. } => "payload-duplicate".into(),
            Tamper::PayloadSigType => "payload-sigtype".into(),
            Tamper::PayloadAddRole => "payload-role".into(),
            Tamper::SignedHashFlip { .. } => "signed-hash-mismatch".into(),
            Tamper::SignedHashLen { kind, .. } => format!("signed-hash-length-{}", ["empty", "1-byte", "half", "n-minus-1", "n-plus-1", "doubled"][(*kind as usize).min(5)]),
            Tamper::SignedUrlUnknown { .. } => "signed-url-not-in-claim".into(),
            Tamper::SignedDropHardBinding => "signed-no-hard-binding".into(),
            Tamper::SignedDuplicate { .. } => "signed-duplicate".into(),
            Tamper::Pad1Byte { .. } => "pad1".into(),
            Tamper::Pad2Byte { .. } => "pad2".into(),
            Tamper::PadShift { .. } => "pad-shift".into(),
            Tamper::RenameKey { key } => format!("rename-{key}"),
            Tamper::RetypeSignatureAsText => "signature-as-text".into(),
            Tamper::RetypePad1AsText => "pad1-as-text".into(),
        }
    }
    fn to_json(&self) -> Value {
        match self {
            Tamper::SigByte { k, x } => json!({"t":"sigbyte","k":k,"x":x}),
            Tamper::PayloadHashFlip { j } => json!({"t":"payload-hash","j":j}),
            Tamper::PayloadUrlSwap { j } => json!({"t":"payload-url","j":j}),
            Tamper::PayloadDrop { j } => json!({"t":"payload-drop","j":j}),
            Tamper::PayloadDuplicate { j } => json!({"t":"payload-duplicate","j":j}),
            Tamper::SignedHashFlip { j } => json!({"t":"signed-hash-mismatch","j":j}),
            Tamper::SignedHashLen { j, kind } => json!({"t":"signed-hash-length","j":j,"kind":kind}),
            Tamper::SignedUrlUnknown { j } => json!({"t":"signed-url-not-in-claim","j":j}),
            Tamper::SignedDuplicate { j } => json!({"t":"signed-duplicate","j":j}),
            Tamper::Pad1Byte { j } => json!({"t":"pad1","j":j}),
            Tamper::Pad2Byte { j } => json!({"t":"pad2","j":j}),
            Tamper::PadShift { n } => json!({"t":"pad-shift","n":n}),
            Tamper::RenameKey { key } => json!({"t":"rename","key":key}),
            other => json!({"t": other.class()}),
        }
    }
    fn from_json(v: &Value) -> Option<Tamper> {
        let j = v["j"].as_u64().unwrap_or(0) as usize;
        Some(match v["t"].as_str()? {
            "none" => Tamper::None,
            "reencode-only" => Tamper::ReencodeOnly,
            "sigbyte" => Tamper::SigByte { k: v["k"].as_u64()? as usize, x: v["x"].as_u64()? as u8 },
            "payload-hash" => Tamper::PayloadHashFlip { j },
            "payload-url" => Tamper::PayloadUrlSwap { j },
            "payload-drop" => Tamper::PayloadDrop { j },
            "payload-add" => Tamper::PayloadAddUnreferenced,
            "payload-duplicate" => Tamper::PayloadDuplicate { j },
            "payload-sigtype" => Tamper::PayloadSigType,
            "payload-role" => Tamper::PayloadAddRole,
            "signed-hash-mismatch" => Tamper::SignedHashFlip { j },
            "signed-hash-length" => Tamper::SignedHashLen { j, kind: v["kind"].as_u64()? as u8 },
            "signed-url-not-in-claim" => Tamper::SignedUrlUnknown { j },
            "signed-no-hard-binding" => Tamper::SignedDropHardBinding,
            "signed-duplicate" => Tamper::SignedDuplicate { j },
            "pad1" => Tamper::Pad1Byte { j },
            "pad2" => Tamper::Pad2Byte { j },
            "pad-shift" => Tamper::PadShift { n: v["n"].as_u64()? as usize },
            "rename" => Tamper::RenameKey {
                key: match v["key"].as_str()? {
                    "signature" => "signature",
                    "signer_payload" => "signer_payload",
                    "sig_type" => "sig_type",
                    "referenced_assertions" => "referenced_assertions",
                    "pad1" => "pad1",
                    _ => return None,
                },
            },
            "signature-as-text" => Tamper::RetypeSignatureAsText,
            "pad1-as-text" => Tamper::RetypePad1AsText,
            _ => return None,
        })
    }
    fn is_signed_variant(&self) -> bool {
        matches!(self, Tamper::SignedHashFlip { .. } | Tamper::SignedHashLen { .. } | Tamper::SignedUrlUnknown { .. } | Tamper::SignedDropHardBinding | Tamper::SignedDuplicate { .. } | Tamper::ReencodeOnly)
    }
}

// ---------------------------------------------------------------------------------------------------
// signer plumbing
// ---------------------------------------------------------------------------------------------------
struct RawFromSigner(Box<dyn Signer + Send + Sync>);
impl RawSigner for RawFromSigner {
    fn sign(&self, data: &[u8]) -> Result<Vec<u8>, RawSignerError> {
        self.0.sign(data).map_err(|e| RawSignerError::InternalError(e.to_string()))
    }
    fn alg(&self) -> SigningAlg {
        self.0.alg()
    }
    fn max_signature_size(&self) -> usize {
        self.0.reserve_size()
    }
}

fn identity_holder() -> X509CredentialHolder {
    let s = sdk::fixture_signer(ID_ALG);
    let chain = s.certs().unwrap_or_else(|e| kit::ev::machinery(format!("identity certs: {e:?}")));
    X509CredentialHolder::from_raw_signer(Box::new(RawFromSigner(s)), chain)
}

/// Edit of the referenced-assertion list shared by the struct side (what gets signed) and the CBOR side (what is stored).
fn edit_refs_struct(t: &Tamper, p: &mut SignerPayload) {
    let n = p.referenced_assertions.len();
    match t {
        Tamper::SignedHashFlip { j } if *j < n => {
            let e = p.referenced_assertions[*j].clone();
            let mut h = e.hash();
            h[0] ^= 1;
            p.referenced_assertions[*j] = HashedUri::new(e.url(), e.alg(), &h);
        }
        Tamper::SignedHashLen { j, kind } if *j < n => {
            let e = p.referenced_assertions[*j].clone();
            p.referenced_assertions[*j] = HashedUri::new(e.url(), e.alg(), &relength(&e.hash(), *kind));
        }
        Tamper::SignedUrlUnknown { j } if *j < n => {
            let e = p.referenced_assertions[*j].clone();
            p.referenced_assertions[*j] = HashedUri::new(format!("{}X", e.url()), e.alg(), &e.hash());
        }
        Tamper::SignedDropHardBinding => p.referenced_assertions.retain(|e| !e.url().contains("c2pa.hash.")),
        Tamper::SignedDuplicate { j } if *j < n => {
            let e = p.referenced_assertions[*j].clone();
            p.referenced_assertions.push(e);
        }
        _ => {}
    }
}

/// The claim's hash at another length (see Tamper::SignedHashLen).
fn relength(h: &[u8], kind: u8) -> Vec<u8> {
    let n = h.len();
    match kind {
        0 => vec![],
        1 => h[..n.min(1)].to_vec(),
        2 => h[..n / 2].to_vec(),
        3 => h[..n.saturating_sub(1)].to_vec(),
        4 => {
            let mut v = h.to_vec();
            v.push(0x5A);
            v
        }
        _ => {
            let mut v = h.to_vec();
            v.extend_from_slice(h);
            v
        }
    }
}

fn refs_mut(v: &mut V) -> Result<&mut Vec<V>, String> {
    match v.get_mut("signer_payload").and_then(|p| p.get_mut("referenced_assertions")) {
        Some(V::A(a)) => Ok(a),
        _ => Err("identity assertion has no signer_payload.referenced_assertions array".into()),
    }
}

fn entry_url(e: &V) -> String {
    e.get("url").and_then(|u| u.as_text()).unwrap_or("").to_string()
}

struct TamperHolder {
    inner: X509CredentialHolder,
    tamper: Tamper,
}
impl CredentialHolder for TamperHolder {
    fn sig_type(&self) -> &'static str {
        self.inner.sig_type()
    }
    fn reserve_size(&self) -> usize {
        self.inner.reserve_size()
    }
    fn sign(&self, signer_payload: &SignerPayload) -> Result<Vec<u8>, IdentityBuilderError> {
        if self.tamper.is_signed_variant() {
            let mut p = signer_payload.clone();
            edit_refs_struct(&self.tamper, &mut p);
            self.inner.sign(&p)
        } else {
            self.inner.sign(signer_payload)
        }
    }
}

struct TamperDA {
    inner: IdentityAssertionBuilder,
    tamper: Tamper,
    /// what the tamper step saw (for region attribution and space sizes)
    seen: std::sync::Arc<Mutex<Option<Seen>>>,
}

#[derive(Clone, Debug, Default)]
struct Seen {
    sig: Vec<u8>,
    pad1: usize,
    pad2: usize,
    refs: Vec<String>,
    total: usize,
    error: Option<String>,
}

fn bytes_of<'a>(v: &'a V, key: &str) -> Result<&'a Vec<u8>, String> {
    match v.get(key) {
        Some(V::B(b)) => Ok(b),
        _ => Err(format!("identity assertion field {key} is not a byte string")),
    }
}

/// Bring the assertion back to exactly `target` bytes by resizing the (all-zero unless deliberately dirtied) pads.
fn repad(v: &V, target: usize) -> Result<Vec<u8>, String> {
    let cur = cbor::encode(v);
    if cur.len() == target {
        return Ok(cur);
    }
    let p1 = bytes_of(v, "pad1")?.clone();
    let p2 = match v.get("pad2") {
        Some(V::B(b)) => b.clone(),
        _ => return Err("no pad2 to adjust".into()),
    };
    // keep deliberately dirtied bytes: only grow/shrink at the end with zeros
    for n2 in 0..64usize {
        for n1_delta in -70i64..70 {
            let n1 = p1.len() as i64 + (target as i64 - cur.len() as i64) + n1_delta;
            if n1 < 0 {
                continue;
            }
            let mut w = v.clone();
            let mut a = p1.clone();
            a.resize(n1 as usize, 0);
            let mut b = p2.clone();
            b.resize(n2.max(1), 0);
            *w.get_mut("pad1").unwrap() = V::B(a);
            *w.get_mut("pad2").unwrap() = V::B(b);
            let e = cbor::encode(&w);
            if e.len() == target {
                return Ok(e);
            }
        }
    }
    Err(format!("cannot re-pad to {target} bytes (have {})", cur.len()))
}

fn apply(t: &Tamper, genuine: &[u8], claim: &PartialClaim, seen: &mut Seen) -> Result<Vec<u8>, String> {
    let mut v = cbor::decode(genuine)?;
    if cbor::encode(&v) != genuine {
        return Err("identity assertion CBOR does not round-trip through the harness codec".into());
    }
    seen.total = genuine.len();
    seen.sig = bytes_of(&v, "signature")?.clone();
    seen.pad1 = bytes_of(&v, "pad1")?.len();
    seen.pad2 = match v.get("pad2") {
        Some(V::B(b)) => b.len(),
        _ => 0,
    };
    seen.refs = refs_mut(&mut v)?.iter().map(entry_url).collect();
    let set_key = |v: &mut V, path_payload: bool, key: &str| -> Result<(), String> {
        let m = if path_payload { v.get_mut("signer_payload").ok_or("no signer_payload")? } else { v };
        if let V::M(m) = m {
            for (k, _) in m.iter_mut() {
                if k.as_text() == Some(key) {
                    let mut b = key.as_bytes().to_vec();
                    let l = b.len();
                    b[l - 1] = b'X';
                    *k = V::T(b);
                    return Ok(());
                }
            }
        }
        Err(format!("key {key} not found"))
    };
    match t {
        Tamper::None => return Ok(genuine.to_vec()),
        Tamper::ReencodeOnly => {}
        Tamper::SigByte { k, x } => {
            if let Some(V::B(s)) = v.get_mut("signature") {
                if *k >= s.len() {
                    return Err("signature byte index out of range".into());
                }
                s[*k] ^= *x;
            }
        }
        Tamper::PayloadHashFlip { j } => {
            let a = refs_mut(&mut v)?;
            match a.get_mut(*j).and_then(|e| e.get_mut("hash")) {
                Some(V::B(h)) if !h.is_empty() => h[0] ^= 1,
                _ => return Err("no such referenced entry".into()),
            }
        }
        Tamper::PayloadUrlSwap { j } => {
            // point entry j at another assertion of the claim, keeping entry j's hash
            let a = refs_mut(&mut v)?;
            let have: Vec<String> = a.iter().map(entry_url).collect();
            let other = claim.assertions().map(|h| h.url()).find(|u| !have.contains(u)).ok_or("no unreferenced assertion in the claim")?;
            match a.get_mut(*j).and_then(|e| e.get_mut("url")) {
                Some(u) => *u = V::text(&other),
                None => return Err("no such referenced entry".into()),
            }
        }
        Tamper::PayloadDrop { j } => {
            let a = refs_mut(&mut v)?;
            if *j >= a.len() {
                return Err("no such referenced entry".into());
            }
            a.remove(*j);
        }
        Tamper::PayloadAddUnreferenced => {
            let a = refs_mut(&mut v)?;
            let have: Vec<String> = a.iter().map(entry_url).collect();
            let other = claim.assertions().find(|h| !have.contains(&h.url())).ok_or("no unreferenced assertion in the claim")?;
            let mut e = vec![(V::text("url"), V::text(&other.url()))];
            if let Some(alg) = other.alg() {
                e.push((V::text("alg"), V::text(&alg)));
            }
            e.push((V::text("hash"), V::B(other.hash())));
            a.push(V::M(e));
        }
        Tamper::PayloadDuplicate { j } | Tamper::SignedDuplicate { j } => {
            let a = refs_mut(&mut v)?;
            let e = a.get(*j).cloned().ok_or("no such referenced entry")?;
            a.push(e);
        }
        Tamper::PayloadSigType => match v.get_mut("signer_payload").and_then(|p| p.get_mut("sig_type")) {
            Some(s) => *s = V::text("cawg.x509.cosf"),
            None => return Err("no sig_type".into()),
        },
        Tamper::PayloadAddRole => {
            if let Some(V::M(m)) = v.get_mut("signer_payload") {
                m.push((V::text("role"), V::A(vec![V::text("cawg.editor")])));
            }
        }
        Tamper::SignedHashFlip { j } => {
            let a = refs_mut(&mut v)?;
            match a.get_mut(*j).and_then(|e| e.get_mut("hash")) {
                Some(V::B(h)) if !h.is_empty() => h[0] ^= 1,
                _ => return Err("no such referenced entry".into()),
            }
        }
        Tamper::SignedHashLen { j, kind } => {
            let a = refs_mut(&mut v)?;
            match a.get_mut(*j).and_then(|e| e.get_mut("hash")) {
                Some(V::B(h)) => *h = relength(h, *kind),
                _ => return Err("no such referenced entry".into()),
            }
        }
        Tamper::SignedUrlUnknown { j } => {
            let a = refs_mut(&mut v)?;
            match a.get_mut(*j).and_then(|e| e.get_mut("url")) {
                Some(V::T(u)) => u.push(b'X'),
                _ => return Err("no such referenced entry".into()),
            }
        }
        Tamper::SignedDropHardBinding => {
            let a = refs_mut(&mut v)?;
            a.retain(|e| !entry_url(e).contains("c2pa.hash."));
        }
        Tamper::Pad1Byte { j } => match v.get_mut("pad1") {
            Some(V::B(p)) if *j < p.len() => p[*j] = 1,
            _ => return Err("pad1 index out of range".into()),
        },
        Tamper::Pad2Byte { j } => match v.get_mut("pad2") {
            Some(V::B(p)) if *j < p.len() => p[*j] = 1,
            _ => return Err("pad2 index out of range".into()),
        },
        Tamper::PadShift { n } => {
            let l1 = bytes_of(&v, "pad1")?.len();
            if *n > l1 {
                return Err("pad shift larger than pad1".into());
            }
            if let Some(V::B(p)) = v.get_mut("pad1") {
                p.truncate(l1 - n);
            }
            if let Some(V::B(p)) = v.get_mut("pad2") {
                p.resize(p.len() + n, 0);
            }
            // exact size restored by a final adjustment of pad2 only
            let mut e = cbor::encode(&v);
            let mut guard = 0;
            while e.len() != genuine.len() && guard < 64 {
                if let Some(V::B(p)) = v.get_mut("pad2") {
                    if e.len() < genuine.len() {
                        p.push(0);
                    } else if !p.is_empty() {
                        p.pop();
                    }
                }
                e = cbor::encode(&v);
                guard += 1;
            }
            if e.len() != genuine.len() {
                return Err("pad shift cannot keep the size".into());
            }
            return Ok(e);
        }
        Tamper::RenameKey { key } => {
            let in_payload = matches!(*key, "sig_type" | "referenced_assertions");
            set_key(&mut v, in_payload, key)?;
        }
        Tamper::RetypeSignatureAsText => {
            let s = bytes_of(&v, "signature")?.clone();
            *v.get_mut("signature").unwrap() = V::T(s);
        }
        Tamper::RetypePad1AsText => {
            let s = bytes_of(&v, "pad1")?.clone();
            *v.get_mut("pad1").unwrap() = V::T(s);
        }
    }
    repad(&v, genuine.len())
}

impl DynamicAssertion for TamperDA {
    fn label(&self) -> String {
        self.inner.label()
    }
    fn reserve_size(&self) -> c2pa::Result<usize> {
        self.inner.reserve_size()
    }
    fn content(&self, label: &str, size: Option<usize>, claim: &PartialClaim) -> c2pa::Result<DynamicAssertionContent> {
        let genuine = match self.inner.content(label, size, claim)? {
            DynamicAssertionContent::Cbor(b) => b,
            _ => return Err(c2pa::Error::BadParam("identity assertion is not CBOR".into())),
        };
        let mut seen = Seen::default();
        let out = match apply(&self.tamper, &genuine, claim, &mut seen) {
            Ok(o) => o,
            Err(e) => {
                seen.error = Some(e.clone());
                *self.seen.lock().unwrap() = Some(seen);
                return Err(c2pa::Error::BadParam(format!("harness tamper step: {e}")));
            }
        };
        *self.seen.lock().unwrap() = Some(seen);
        Ok(DynamicAssertionContent::Cbor(out))
    }
}

struct TamperSigner {
    c2pa: Box<dyn Signer + Send + Sync>,
    refs: Vec<&'static str>,
    tamper: Tamper,
    seen: std::sync::Arc<Mutex<Option<Seen>>>,
}
impl Signer for TamperSigner {
    fn sign(&self, data: &[u8]) -> c2pa::Result<Vec<u8>> {
        self.c2pa.sign(data)
    }
    fn alg(&self) -> SigningAlg {
        self.c2pa.alg()
    }
    fn certs(&self) -> c2pa::Result<Vec<Vec<u8>>> {
        self.c2pa.certs()
    }
    fn reserve_size(&self) -> usize {
        self.c2pa.reserve_size()
    }
    fn dynamic_assertions(&self) -> Vec<Box<dyn DynamicAssertion>> {
        let mut iab = IdentityAssertionBuilder::for_credential_holder(TamperHolder { inner: identity_holder(), tamper: self.tamper.clone() });
        if !self.refs.is_empty() {
            iab.add_referenced_assertions(&self.refs);
        }
        vec![Box::new(TamperDA { inner: iab, tamper: self.tamper.clone(), seen: self.seen.clone() })]
    }
}

fn refs_of(mask: u32) -> Vec<&'static str> {
    (0..3).filter(|i| mask >> i & 1 == 1).map(|i| REFS[i]).collect()
}

// ---------------------------------------------------------------------------------------------------
// observation
// ---------------------------------------------------------------------------------------------------
fn block_on<F: std::future::Future>(f: F) -> F::Output {
    let mut f = std::pin::pin!(f);
    let mut cx = std::task::Context::from_waker(std::task::Waker::noop());
    loop {
        if let std::task::Poll::Ready(v) = f.as_mut().poll(&mut cx) {
            return v;
        }
        std::thread::yield_now();
    }
}

#[derive(Debug, Clone)]
struct Obs {
    path: &'static str,
    /// Valid | Trusted | Invalid | Err(..) | PANIC ..
    state: String,
    cawg_success: Vec<String>,
    cawg_failure: Vec<String>,
    other_failure: Vec<String>,
}

fn codes(v: &Value, bucket: &str, out: &mut Vec<String>, inside: bool) {
    match v {
        Value::Object(m) => {
            if inside {
                if let Some(c) = m.get("code").and_then(|c| c.as_str()) {
                    if !out.iter().any(|x| x == c) {
                        out.push(c.to_string());
                    }
                }
            }
            for (k, x) in m {
                codes(x, bucket, out, inside || k == bucket);
            }
        }
        Value::Array(a) => a.iter().for_each(|x| codes(x, bucket, out, inside)),
        _ => {}
    }
}

fn summarise(path: &'static str, r: &Reader) -> Obs {
    let vr = r.validation_results().and_then(|v| serde_json::to_value(v).ok()).unwrap_or(Value::Null);
    let (mut s, mut f) = (vec![], vec![]);
    codes(&vr, "success", &mut s, false);
    codes(&vr, "failure", &mut f, false);
    s.sort();
    f.sort();
    Obs {
        path,
        state: sdk::state_name(r.validation_state()).to_string(),
        cawg_success: s.into_iter().filter(|c| c.starts_with("cawg.")).collect(),
        cawg_failure: f.iter().filter(|c| c.starts_with("cawg.")).cloned().collect(),
        other_failure: f.into_iter().filter(|c| !c.starts_with("cawg.")).collect(),
    }
}

/// Reader settings: the repository's test roots are CAWG trust anchors, so that an untampered identity assertion has no cawg.* failure at all.
fn read_settings_with(decode: bool) -> String {
    let mut v: Value = serde_json::from_str(&read_settings()).unwrap_or(Value::Null);
    v["core"] = json!({"decode_identity_assertions": decode});
    v.to_string()
}

fn read_settings() -> String {
    // Context::with_settings REPLACES the settings, so the kit's base settings are merged in here
    let base: Value = serde_json::from_str(sdk::BASE_SETTINGS).unwrap_or(Value::Null);
    let anchors = String::from_utf8_lossy(&sdk::fixture("certs/trust/test_cert_root_bundle.pem")).into_owned();
    let cfg = String::from_utf8_lossy(&sdk::fixture("certs/trust/store.cfg")).into_owned();
    let mut v = base;
    v["cawg_trust"] = json!({"verify_trust_list": true, "trust_anchors": anchors, "trust_config": cfg});
    v.to_string()
}

fn observe(bytes: &[u8]) -> Vec<Obs> {
    let rs = read_settings();
    let fail = |path: &'static str, s: String| Obs { path, state: s, cawg_success: vec![], cawg_failure: vec![], other_failure: vec![] };
    let mut out = vec![];
    // path 1: default reader (identity assertions validated while the manifest is parsed)
    out.push(match par::guard(|| Reader::from_context(sdk::ctx_with(&[&rs])).with_stream(MIME, Cursor::new(bytes))) {
        Err(p) => fail("reader", format!("PANIC {p}")),
        Ok(Err(e)) => fail("reader", format!("Err({})", sdk::err_kind(&e))),
        Ok(Ok(r)) => summarise("reader", &r),
    });
    // path 2: identity decoding off, then the CAWG post validator
    out.push(
        match par::guard(|| -> c2pa::Result<Reader> {
            let ctx = sdk::ctx_with(&[&read_settings_with(false)]).into_shared();
            let mut r = Reader::from_shared_context(&ctx).with_stream(MIME, Cursor::new(bytes))?;
            let validator = CawgValidator::new(&ctx);
            block_on(r.post_validate_async(&validator))?;
            Ok(r)
        }) {
            Err(p) => fail("post_validate", format!("PANIC {p}")),
            Ok(Err(e)) => fail("post_validate", format!("Err({})", sdk::err_kind(&e))),
            Ok(Ok(r)) => summarise("post_validate", &r),
        },
    );
    out
}

struct Outcome {
    sign_error: Option<String>,
    obs: Vec<Obs>,
    seen: Option<Seen>,
}

fn execute(mask: u32, tamper: &Tamper, via_public_constructor: bool, jpeg: &[u8]) -> Outcome {
    let seen = std::sync::Arc::new(Mutex::new(None));
    let signed = par::guard(|| -> c2pa::Result<Vec<u8>> {
        let mut b = Builder::from_context(sdk::ctx()).with_definition(definition())?;
        b.set_intent(BuilderIntent::Create(c2pa::DigitalSourceType::Empty));
        let mut dst = Cursor::new(Vec::new());
        if via_public_constructor {
            let s = c2pa::create_signer::from_x509_identity(sdk::fixture_signer(C2PA_ALG), sdk::fixture_signer(ID_ALG), &refs_of(mask), &[]);
            b.sign(s.as_ref(), MIME, &mut Cursor::new(jpeg), &mut dst)?;
        } else {
            let s = TamperSigner { c2pa: sdk::fixture_signer(C2PA_ALG), refs: refs_of(mask), tamper: tamper.clone(), seen: seen.clone() };
            b.sign(&s, MIME, &mut Cursor::new(jpeg), &mut dst)?;
        }
        Ok(dst.into_inner())
    });
    let seen_v = seen.lock().unwrap().clone();
    match signed {
        Err(p) => Outcome { sign_error: Some(format!("PANIC {p}")), obs: vec![], seen: seen_v },
        Ok(Err(e)) => Outcome { sign_error: Some(format!("{e:?}")), obs: vec![], seen: seen_v },
        Ok(Ok(bytes)) => Outcome { sign_error: None, obs: observe(&bytes), seen: seen_v },
    }
}

/// Region of byte k of a COSE_Sign1 blob, from the harness CBOR span walker.
fn sig_region(sig: &[u8], k: usize) -> String {
    match cbor::spans(sig, true) {
        Err(_) => "unparsed".into(),
        Ok(sp) => {
            let p = sp.iter().find(|(s, e, _)| *s <= k && k < *e).map(|x| x.2.clone()).unwrap_or_else(|| "gap".into());
            // COSE_Sign1 = [protected, unprotected, payload, signature]
            let top = if p.starts_with("[0]") {
                "protected"
            } else if p.starts_with("[1]") {
                "unprotected"
            } else if p.starts_with("[2]") {
                "payload"
            } else if p.starts_with("[3]") {
                "signature"
            } else {
                "envelope"
            };
            let rest: String = p.chars().skip(3).collect();
            // drop array indices inside certificates etc. to keep keys stable
            let rest: String = rest.split('[').next().unwrap_or("").to_string();
            format!("{top}{rest}")
        }
    }
}

fn judge(run: &Run, mask: u32, tamper: &Tamper, o: &Outcome, case: &Value) {
    let cls = tamper.class();
    if let Some(e) = &o.sign_error {
        if e.contains("harness tamper step") || matches!(tamper, Tamper::None | Tamper::ReencodeOnly) {
            kit::ev::machinery(format!("C33: signing failed for mask {mask} tamper {:?}: {e}", tamper));
        }
        // the SDK refused to sign the tampered assertion: nothing tampered reaches a reader
        run.outcome(format!("{cls}:sign-refused"));
        return;
    }
    let expect_failure = !matches!(tamper, Tamper::None | Tamper::ReencodeOnly | Tamper::PadShift { .. });
    let region = match (tamper, &o.seen) {
        (Tamper::SigByte { k, .. }, Some(s)) => sig_region(&s.sig, *k),
        _ => String::new(),
    };
    for ob in &o.obs {
        run.outcome(format!("{cls}/{}:{}:{}", ob.path, ob.state.split(' ').next().unwrap_or(""), if ob.cawg_failure.is_empty() { if ob.cawg_success.is_empty() { "silent" } else { "cawg-ok" } } else { "cawg-failure" }));
        if ob.state != "Valid" && ob.state != "Trusted" {
            if matches!(tamper, Tamper::None | Tamper::ReencodeOnly) {
                kit::ev::machinery(format!("C33: untampered seed (mask {mask}, {:?}) reads {} via {} {:?}", tamper, ob.state, ob.path, ob.other_failure));
            }
            let other: Vec<&String> = ob.other_failure.iter().filter(|c| *c != "signingCredential.untrusted").collect();
            run.violation(
                format!(
                    "c2pa-not-valid cawg-codes={} other-codes={} state={} path={} tamper={cls}{}",
                    if ob.cawg_failure.is_empty() { "none".to_string() } else { ob.cawg_failure.join(",") },
                    if other.is_empty() { "none".to_string() } else { other.iter().map(|s| s.as_str()).collect::<Vec<_>>().join(",") },
                    ob.state.split(' ').next().unwrap_or(""),
                    ob.path,
                    if region.is_empty() { String::new() } else { format!(" region={region}") }
                ),
                format!("identity assertion tampering {:?} (C2PA manifest untouched and signed afterwards) makes the manifest read {} via {}; failures {:?} {:?}", tamper, ob.state, ob.path, ob.other_failure, ob.cawg_failure),
                case.clone(),
            );
            continue;
        }
        if !expect_failure {
            if matches!(tamper, Tamper::None | Tamper::ReencodeOnly) {
                if ob.cawg_success.is_empty() || !ob.cawg_failure.is_empty() {
                    if matches!(tamper, Tamper::ReencodeOnly) {
                        kit::ev::machinery(format!("C33: harness re-encoding control fails: {:?}", ob));
                    }
                    run.violation(
                        format!("untampered-not-validated path={} refs={} failure={}", ob.path, mask.count_ones(), ob.cawg_failure.join(",")),
                        format!("untampered identity assertion over {:?}: cawg success {:?}, cawg failure {:?} via {}", refs_of(mask), ob.cawg_success, ob.cawg_failure, ob.path),
                        case.clone(),
                    );
                }
            }
            continue;
        }
        if ob.cawg_failure.is_empty() {
            run.violation(
                format!("unreported tamper={cls}{} path={} success={}", if region.is_empty() { String::new() } else { format!(" region={region}") }, ob.path, ob.cawg_success.join(",")),
                format!("tampering {:?} is not reported with any cawg.* failure code via {} (cawg success codes: {:?}, other failures: {:?})", tamper, ob.path, ob.cawg_success, ob.other_failure),
                case.clone(),
            );
        }
    }
}

pub fn run(run: &Run, replay: Option<&Value>) {
    run.rule(
        "identity assertion over every subset of 3 referenceable assertions (hard binding always referenced); tampering alphabet applied before C2PA signing: every byte k of the \
         identity signature XOR {01} (quick: all-referenced subset; thorough: every subset, and XOR {80,FF} too for the empty and the full subset); every referenced entry j x {hash flip, url swap, drop, duplicate}, add entry, \
         sig_type, role (payload edited after identity signing); validly signed altered payloads {hash flip j, hash of entry j truncated to 0/1/n/2/n-1 bytes or extended by 1/n bytes, unknown url j, no hard binding, duplicate j}; every byte of pad1 (quick: first 64, last 64, every 16th; thorough: all, for the empty and the full subset) and pad2 set \
         to 01; structural damage (5 key renames, 2 retypings); zero-padding redistribution (recorded only). Each output read by the default Reader and by post_validate_async(CawgValidator). \
         non-trivial = tampered cases that were signed and read.",
    );
    run.assume("a re-distribution of all-zero padding is not a 'change to the padding' a validator could notice (there is no reference copy): recorded, no expectation");
    run.assume("C2PA signer and identity signer: the ed25519 credential from the repository's test credentials; readers are configured with the repository's test roots as CAWG trust anchors (cawg_trust.trust_anchors), so the untampered assertion carries no cawg.* failure");
    let jpeg = kit::assets::jpeg();

    if let Some(c) = replay {
        let mask = c["mask"].as_u64().unwrap_or(7) as u32;
        let t = Tamper::from_json(&c["tamper"]).unwrap_or_else(|| kit::ev::machinery("C33 replay: unreadable tamper"));
        let o = execute(mask, &t, c["public_constructor"].as_bool().unwrap_or(false), &jpeg);
        run.eval();
        println!("replay mask={mask} tamper={:?}: sign_error={:?}", t, o.sign_error);
        for ob in &o.obs {
            println!("  {:?}", ob);
        }
        judge(run, mask, &t, &o, c);
        return;
    }

    // ---- untampered: public constructor and harness flow, every subset; determinism ---------------------
    let mut base_seen: Option<Seen> = None;
    for mask in 0..8u32 {
        for public in [true, false] {
            let case = json!({"mask":mask,"tamper":{"t":"none"},"public_constructor":public});
            let o = execute(mask, &Tamper::None, public, &jpeg);
            run.eval();
            judge(run, mask, &Tamper::None, &o, &case);
            if !public && mask == 7 {
                let o2 = execute(mask, &Tamper::None, public, &jpeg);
                run.eval();
                let sig = |o: &Outcome| o.obs.iter().map(|b| format!("{}:{}:{:?}:{:?}", b.path, b.state, b.cawg_success, b.cawg_failure)).collect::<Vec<_>>();
                if sig(&o) != sig(&o2) {
                    kit::ev::machinery(format!("C33: untampered case is not deterministic: {:?} vs {:?}", sig(&o), sig(&o2)));
                }
                run.sample(json!({"mask":mask,"tamper":"none","observations": o.obs.iter().map(|b| json!({"path":b.path,"state":b.state,"cawg_success":b.cawg_success,"cawg_failure":b.cawg_failure})).collect::<Vec<_>>() }));
                base_seen = o.seen.clone();
            }
        }
        let case = json!({"mask":mask,"tamper":{"t":"reencode-only"}});
        let o = execute(mask, &Tamper::ReencodeOnly, false, &jpeg);
        run.eval();
        judge(run, mask, &Tamper::ReencodeOnly, &o, &case);
    }
    run.space("untampered: subsets x {from_x509_identity, harness flow, harness re-encoding control}", 24, true);
    let seen = base_seen.unwrap_or_else(|| kit::ev::machinery("C33: tamper step never saw the identity assertion"));
    run.sample(json!({"identity_signature_bytes": seen.sig.len(), "pad1": seen.pad1, "pad2": seen.pad2, "assertion_bytes": seen.total, "referenced": seen.refs}));

    // ---- tampered ------------------------------------------------------------------------------------------
    let thorough = run.tier.is_thorough();
    // the SDK serialises signature operations behind one process-wide mutex, so this sweep is effectively sequential (~25 ms per case)
    let masks: Vec<u32> = if thorough { (0..8).collect() } else { vec![7] };
    let mut cases: Vec<(u32, Tamper)> = vec![];
    for &m in &masks {
        let xors: Vec<u8> = if thorough && (m == 0 || m == 7) { vec![0x01, 0x80, 0xFF] } else { vec![0x01] };
        for &x in &xors {
            for k in 0..seen.sig.len() {
                cases.push((m, Tamper::SigByte { k, x }));
            }
        }
    }
    run.space("identity signature: every byte k x xor values x subsets", cases.len() as u64, true);
    let n0 = cases.len();
    for mask in 0..8u32 {
        let n_refs = 1 + mask.count_ones() as usize; // hard binding + selected
        for j in 0..n_refs {
            cases.push((mask, Tamper::PayloadHashFlip { j }));
            cases.push((mask, Tamper::PayloadUrlSwap { j }));
            cases.push((mask, Tamper::PayloadDrop { j }));
            cases.push((mask, Tamper::PayloadDuplicate { j }));
            cases.push((mask, Tamper::SignedHashFlip { j }));
            for kind in 0..6u8 {
                cases.push((mask, Tamper::SignedHashLen { j, kind }));
            }
            cases.push((mask, Tamper::SignedUrlUnknown { j }));
            cases.push((mask, Tamper::SignedDuplicate { j }));
        }
        cases.push((mask, Tamper::PayloadAddUnreferenced));
        cases.push((mask, Tamper::PayloadSigType));
        cases.push((mask, Tamper::PayloadAddRole));
        cases.push((mask, Tamper::SignedDropHardBinding));
        for key in ["signature", "signer_payload", "sig_type", "referenced_assertions", "pad1"] {
            cases.push((mask, Tamper::RenameKey { key }));
        }
        cases.push((mask, Tamper::RetypeSignatureAsText));
        cases.push((mask, Tamper::RetypePad1AsText));
    }
    run.space("signer payload edits, validly signed altered payloads, structural damage: every entry x every subset", (cases.len() - n0) as u64, true);
    let n1 = cases.len();
    let pad_masks: Vec<u32> = if thorough { vec![0, 7] } else { vec![7] };
    for &m in &pad_masks {
        // pad sizes depend on the subset only through the payload length; enumerate every byte of what the all-subset seed showed,
        // indices beyond the actual pad of another subset are harness errors and reported as such
        let (p1, p2) = if m == 7 { (seen.pad1, seen.pad2) } else { pad_sizes(m, &jpeg) };
        for j in 0..p1 {
            // quick: the first and last 64 bytes of pad1 and every 16th in between (all bytes are handled by one `all zero` test)
            if thorough || j < 64 || j + 64 >= p1 || j % 16 == 0 {
                cases.push((m, Tamper::Pad1Byte { j }));
            }
        }
        for j in 0..p2 {
            cases.push((m, Tamper::Pad2Byte { j }));
        }
        for n in [1usize, 2, 23, 24, 255, 256] {
            if n <= p1 {
                cases.push((m, Tamper::PadShift { n }));
            }
        }
    }
    run.space("padding: bytes of pad1 (quick: first/last 64 + every 16th; thorough: all) and all of pad2 set to 01; zero-padding redistribution by {1,2,23,24,255,256}", (cases.len() - n1) as u64, true);

    par::for_each(&cases, |(mask, t)| {
        let case = json!({"mask":mask,"tamper":t.to_json()});
        let o = execute(*mask, t, false, &jpeg);
        run.eval();
        if o.sign_error.is_none() {
            run.nontrivial(format!("{mask}/{}", t.to_json()));
        }
        judge(run, *mask, t, &o, &case);
    });
}

fn pad_sizes(mask: u32, jpeg: &[u8]) -> (usize, usize) {
    let o = execute(mask, &Tamper::None, false, jpeg);
    match o.seen {
        Some(s) => (s.pad1, s.pad2),
        None => kit::ev::machinery("C33: cannot determine pad sizes"),
    }
}

//! C40 — synchronous and asynchronous APIs behave identically.
//! S-env, deviation bound 1: the quick sub-products of the C03 / C15 / C39 enumerations are executed through the
//! sync entry points (Builder::sign, add_ingredient_from_stream, sign_data_hashed_embeddable, Reader::with_stream,
//! with_manifest_data_and_stream) and through their async_generic twins with an equivalent AsyncSigner
//! (kit::defs::AsyncWrap over the same fixture signer) on the kit executor. The async side is run undisturbed and then
//! once for EVERY await point k of the signer (sign / ocsp_val / send_timestamp_request futures) with that future
//! returning Pending once.
//! Oracle: same error kind, or outputs whose canonical report (kit::canon, hashes of hashed URIs dropped) and
//! validation codes are equal.
//!
//! Mutants caught (tools/mutant_run.sh H <diff> C40 quick):
//!   /verif/mutants/C40-async-verify-claim-unadjusted-settings.diff (independently seeded, first MISSED; led to the repository
//!       fixture leg) -> `codes-differ enum=fixture op=read ctx=* file=C.jpg|CA.jpg|XCA.jpg|... async=undisturbed`
//!   /verif/mutants/C40-async-skips-verify-after-sign.diff -> `outcome-differs ...` / `error-kind-differs ...` on the faulty-signer cases (sub-product G)

use crate::{c03, c15, c22::first_diff, c39};
use c2pa::{assertions::DataHash, Builder, BuilderIntent, DigitalSourceType, HashRange, Reader};
use kit::{
    assets,
    defs::{self, block_on, AsyncWrap, Def, Kind},
    par, sdk, Run,
};
use serde_json::{json, Value};
use std::io::Cursor;

#[derive(Clone, Copy, Debug, PartialEq)]
pub enum Flavor {
    Sync,
    Async(Option<usize>),
}

#[derive(Clone, Debug)]
pub struct Obs {
    /// Ok((canonical view, codes)) or Err(error kind)
    pub out: Result<(Value, Vec<String>), String>,
    pub points: usize,
    pub pended: usize,
}

pub fn view(rd: &Reader) -> (Value, Vec<String>) {
    (defs::view(rd), kit::canon::codes(rd))
}

fn kind(e: &c2pa::Error) -> String {
    sdk::err_kind(e)
}

// ------------------------------------------------------------------------------------------------------------
// C03 enumeration
// ------------------------------------------------------------------------------------------------------------

fn c03_sync(c: &c03::Case) -> Obs {
    let a = assets::by_name(&c.asset);
    let out = match c03::build_and_sign(c, &a.data, a.mime) {
        Err(p) => Err(format!("PANIC {p}")),
        Ok(Err(e)) => Err(format!("sign:{}", kind(&e))),
        Ok(Ok((out, man))) => match c03::read_back(c, a.mime, &out, &man) {
            Err(p) => Err(format!("PANIC {p}")),
            Ok(Err(e)) => Err(format!("read:{}", kind(&e))),
            Ok(Ok(rd)) => Ok(view(&rd)),
        },
    };
    Obs { out, points: 0, pended: 0 }
}

fn c03_async(c: &c03::Case, pend: Option<usize>) -> Obs {
    let a = assets::by_name(&c.asset);
    let mut wrap = AsyncWrap::new(sdk::fixture_signer(&c.alg), pend);
    wrap.fault = c.fault;
    let wrap = wrap;
    let r = par::guard(|| {
        block_on(async {
            let signed: c2pa::Result<(Vec<u8>, Vec<u8>)> = async {
                let mut b = Builder::from_context(c.ctx()).with_definition(c.def.definition(c.ver, Some(&c.hash)))?;
                b.set_intent(BuilderIntent::Create(DigitalSourceType::DigitalCapture));
                c.def.apply_async(&mut b, c.ver).await?;
                match c.mode.as_str() {
                    "sidecar" => { b.set_no_embed(true); }
                    "remote" => { b.set_remote_url(c03::REMOTE_URL); }
                    _ => {}
                }
                let mut dst = Cursor::new(Vec::new());
                let man = b.sign_async(&wrap, a.mime, &mut Cursor::new(&a.data), &mut dst).await?;
                Ok((dst.into_inner(), man))
            }
            .await;
            match signed {
                Err(e) => Err(format!("sign:{}", kind(&e))),
                Ok((out, man)) => {
                    let rd = Reader::from_context(c.ctx());
                    let r = if c.mode == "sidecar" {
                        rd.with_manifest_data_and_stream_async(&man, a.mime, Cursor::new(&out)).await
                    } else {
                        rd.with_stream_async(a.mime, Cursor::new(&out)).await
                    };
                    match r {
                        Err(e) => Err(format!("read:{}", kind(&e))),
                        Ok(rd) => Ok(view(&rd)),
                    }
                }
            }
        })
    });
    Obs { out: r.unwrap_or_else(|p| Err(format!("PANIC {p}"))), points: wrap.points_seen(), pended: wrap.pended() }
}

// ------------------------------------------------------------------------------------------------------------
// C15 enumeration through the flavoured API: data_hashed_placeholder + sign_data_hashed_embeddable(_async)
// ------------------------------------------------------------------------------------------------------------

fn c15_flow(c: &c15::Case, fl: Flavor) -> Obs {
    let mime = c.mime();
    let pend = match fl { Flavor::Async(p) => p, Flavor::Sync => None };
    let mut wrap = AsyncWrap::new(sdk::fixture_signer(&c.alg), pend);
    wrap.reserve_extra = c.reserve_extra;
    let sync_signer = c15::OwnedReserve { inner: sdk::fixture_signer(&c.alg), extra: c.reserve_extra };
    let r = par::guard(|| {
        block_on(async {
            let def = if c.rich { Def::rich() } else { Def::empty() };
            let step: c2pa::Result<(Vec<u8>, Option<(Vec<u8>, usize)>, usize)> = async {
                let mut b = Builder::from_context(sdk::ctx()).with_definition(def.definition(2, None))?;
                b.set_intent(BuilderIntent::Create(DigitalSourceType::DigitalCapture));
                if fl == Flavor::Sync { def.apply(&mut b, 2)?; } else { def.apply_async(&mut b, 2).await?; }
                let reserve = { use c2pa::Signer; sync_signer.reserve_size() };
                let ph = b.data_hashed_placeholder(reserve, mime)?;
                let mut dh = DataHash::new("jumbf manifest", "sha256");
                let mut real_asset = None;
                if c.real {
                    let filler = c15::filler_for(&c.fmt, c.co).unwrap_or(0);
                    let (asset, off) = c15::embed(&c.fmt, filler, &ph).unwrap_or_else(|| kit::ev::machinery("C40/C15: real case without embedding"));
                    dh.add_exclusion(HashRange::new(off as u64, ph.len() as u64));
                    dh.gen_hash_from_stream(&mut Cursor::new(&asset))?;
                    real_asset = Some((asset, off));
                } else {
                    let head = c15::embed(&c.fmt, 0, &ph).map(|x| x.0).unwrap_or_else(|| vec![0x5Au8; 64]);
                    let (ranges, _) = c15::exclusion_list(c.n, c.co, c.cl, head.len() as u64 + 8, false).unwrap_or_else(|| kit::ev::machinery("C40/C15: infeasible list"));
                    let end = ranges.iter().map(|r| r.0 + r.1).max().unwrap_or(0).max(head.len() as u64) + 64;
                    for r in &ranges { dh.add_exclusion(HashRange::new(r.0, r.1)); }
                    let mut s = c15::Sparse { head, len: end, pos: 0, served: 0 };
                    dh.gen_hash_from_stream(&mut s)?;
                }
                let signed = if fl == Flavor::Sync {
                    b.sign_data_hashed_embeddable(&sync_signer, &dh, mime)?
                } else {
                    b.sign_data_hashed_embeddable_async(&wrap, &dh, mime).await?
                };
                Ok((signed, real_asset, ph.len()))
            }
            .await;
            match step {
                Err(e) => Err(format!("flow:{}", kind(&e))),
                Ok((signed, real_asset, ph_len)) => {
                    let mut v = json!({"signed_minus_placeholder": signed.len() as i64 - ph_len as i64});
                    let mut codes = vec![];
                    if let Some((asset, off)) = real_asset {
                        if signed.len() == ph_len {
                            let mut patched = asset.clone();
                            patched[off..off + signed.len()].copy_from_slice(&signed);
                            let rd = if fl == Flavor::Sync {
                                Reader::from_context(sdk::ctx()).with_stream(mime, Cursor::new(&patched))
                            } else {
                                Reader::from_context(sdk::ctx()).with_stream_async(mime, Cursor::new(&patched)).await
                            };
                            match rd {
                                Ok(rd) => { let (x, c) = view(&rd); v["report"] = x; codes = c; }
                                Err(e) => { v["report"] = json!(format!("read:{}", kind(&e))); }
                            }
                        }
                    }
                    Ok((v, codes))
                }
            }
        })
    });
    Obs { out: r.unwrap_or_else(|p| Err(format!("PANIC {p}"))), points: wrap.points_seen(), pended: wrap.pended() }
}

// ------------------------------------------------------------------------------------------------------------
// C39 enumeration
// ------------------------------------------------------------------------------------------------------------

async fn make_parent_flavoured(c: &c39::Case, title: &str, ing_mime: &str, ing: &[u8], via_archive: bool, fl: Flavor, wrap: &AsyncWrap) -> Result<Vec<u8>, String> {
    let p = assets::by_name(&c.parent);
    let ing_json = json!({"title": "the-ingredient", "relationship": c.rel}).to_string();
    let mut b = c39::new_builder(&c.rel, title);
    let sync = fl == Flavor::Sync;
    if via_archive {
        let mut b1 = c39::new_builder(&c.rel, "archiver");
        let id = {
            let i = if sync {
                b1.add_ingredient_from_stream(ing_json.clone(), ing_mime, &mut Cursor::new(ing))
            } else {
                b1.add_ingredient_from_stream_async(ing_json.clone(), ing_mime, &mut Cursor::new(ing)).await
            }
            .map_err(|e| format!("add-archiver:{}", kind(&e)))?;
            match i.label() { Some(l) if !l.is_empty() => l.to_string(), _ => i.instance_id().to_string() }
        };
        let mut buf = Cursor::new(Vec::new());
        b1.write_ingredient_archive(&id, &mut buf).map_err(|e| format!("write-archive:{}", kind(&e)))?;
        buf.set_position(0);
        if sync {
            b.add_ingredient_from_stream(ing_json, "application/c2pa", &mut buf).map(|_| ())
        } else {
            b.add_ingredient_from_stream_async(ing_json, "application/c2pa", &mut buf).await.map(|_| ())
        }
        .map_err(|e| format!("add-archive:{}", kind(&e)))?;
    } else {
        if sync {
            b.add_ingredient_from_stream(ing_json, ing_mime, &mut Cursor::new(ing)).map(|_| ())
        } else {
            b.add_ingredient_from_stream_async(ing_json, ing_mime, &mut Cursor::new(ing)).await.map(|_| ())
        }
        .map_err(|e| format!("add:{}", kind(&e)))?;
    }
    let mut dst = Cursor::new(Vec::new());
    if sync {
        let signer = sdk::fixture_signer("ed25519");
        b.sign(signer.as_ref(), p.mime, &mut Cursor::new(&p.data), &mut dst).map_err(|e| format!("sign:{}", kind(&e)))?;
    } else {
        b.sign_async(wrap, p.mime, &mut Cursor::new(&p.data), &mut dst).await.map_err(|e| format!("sign:{}", kind(&e)))?;
    }
    Ok(dst.into_inner())
}

fn c39_flow(c: &c39::Case, seeds: &[c39::Seed], fl: Flavor) -> Obs {
    let pend = match fl { Flavor::Async(p) => p, Flavor::Sync => None };
    let wrap = AsyncWrap::new(sdk::fixture_signer("ed25519"), pend);
    let s = seeds.iter().find(|s| s.name == c.seed).unwrap_or_else(|| kit::ev::machinery("C40/C39: unknown seed"));
    let ing: &Vec<u8> = match c.state.as_str() { "signed" => &s.signed, "tampered" => &s.tampered, _ => &s.unsigned };
    let pm = assets::by_name(&c.parent).mime;
    let r = par::guard(|| {
        block_on(async {
            let out = match c.mode.as_str() {
                "direct" | "archive" => make_parent_flavoured(c, "outer", s.mime, ing, c.mode == "archive", fl, &wrap).await?,
                _ => {
                    let mid = make_parent_flavoured(c, "middle", s.mime, ing, false, fl, &wrap).await?;
                    make_parent_flavoured(c, "outer", pm, &mid, false, fl, &wrap).await?
                }
            };
            let rd = if fl == Flavor::Sync {
                Reader::from_context(sdk::ctx()).with_stream(pm, Cursor::new(&out))
            } else {
                Reader::from_context(sdk::ctx()).with_stream_async(pm, Cursor::new(&out)).await
            };
            match rd {
                Ok(rd) => Ok(view(&rd)),
                Err(e) => Err(format!("read:{}", kind(&e))),
            }
        })
    });
    Obs { out: r.unwrap_or_else(|p| Err(format!("PANIC {p}"))), points: wrap.points_seen(), pended: wrap.pended() }
}

// ------------------------------------------------------------------------------------------------------------
// repository fixtures: subjects that carry what generated assets lack (RFC 3161 time stamps, claim v1, old ingredient
// assertions, CAWG data, ...)
// ------------------------------------------------------------------------------------------------------------

#[derive(Clone, Debug)]
pub struct FxCase {
    pub file: String,
    /// "kit" = kit settings; "default" = Context::new() with only network fetches switched off
    pub ctx: String,
    /// "read" | "ingredient"
    pub op: String,
}

pub fn fixture_files() -> Vec<String> {
    let exts = ["jpg", "jpeg", "png", "webp", "svg", "mp4", "avif", "heic", "tif", "tiff", "wav", "mp3", "gif", "c2pa", "pdf", "m4a", "dng"];
    let mut v = vec![];
    if let Ok(rd) = std::fs::read_dir(sdk::FIXTURES) {
        for e in rd.flatten() {
            let p = e.path();
            let ext = p.extension().and_then(|x| x.to_str()).unwrap_or("").to_lowercase();
            let len = e.metadata().map(|m| m.len()).unwrap_or(0);
            if p.is_file() && exts.contains(&ext.as_str()) && len > 0 && len <= 200 * 1024 {
                if let Some(n) = p.file_name().and_then(|x| x.to_str()) {
                    v.push(n.to_string());
                }
            }
        }
    }
    v.sort();
    v
}

fn fx_ctx(kind: &str) -> c2pa::Context {
    if kind == "kit" {
        sdk::ctx()
    } else {
        c2pa::Context::new()
            .with_settings(r#"{"verify":{"ocsp_fetch":false,"remote_manifest_fetch":false}}"#)
            .unwrap_or_else(|e| kit::ev::machinery(format!("C40: settings: {e:?}")))
    }
}

fn fx_flow(c: &FxCase, fl: Flavor) -> Obs {
    let data = sdk::fixture(&c.file);
    let fmt = c2pa::format_from_path(&c.file).unwrap_or_else(|| "application/octet-stream".to_string());
    let sync = fl == Flavor::Sync;
    let r = par::guard(|| {
        block_on(async {
            if c.op == "read" {
                let rd = if sync {
                    Reader::from_context(fx_ctx(&c.ctx)).with_stream(&fmt, Cursor::new(&data))
                } else {
                    Reader::from_context(fx_ctx(&c.ctx)).with_stream_async(&fmt, Cursor::new(&data)).await
                };
                match rd {
                    Ok(rd) => Ok(view(&rd)),
                    Err(e) => Err(format!("read:{}", kind(&e))),
                }
            } else {
                let mut b = Builder::from_context(fx_ctx(&c.ctx));
                let j = r#"{"title":"fx","relationship":"componentOf"}"#;
                let ing = if sync {
                    b.add_ingredient_from_stream(j, &fmt, &mut Cursor::new(&data))
                } else {
                    b.add_ingredient_from_stream_async(j, &fmt, &mut Cursor::new(&data)).await
                };
                match ing {
                    Ok(i) => {
                        let mut v = json!({"json": {"active_manifest": i.active_manifest(), "ingredient": serde_json::to_value(&*i).unwrap_or(Value::Null)}});
                        defs::strip_hashes(&mut v);
                        let mut codes = vec![];
                        if let Some(vr) = i.validation_results() {
                            let x = serde_json::to_value(vr).unwrap_or(Value::Null);
                            for (bin, list) in x["activeManifest"].as_object().into_iter().flatten() {
                                for s in list.as_array().into_iter().flatten() {
                                    codes.push(format!("{bin}:{}", s["code"].as_str().unwrap_or("")));
                                }
                            }
                        }
                        codes.sort();
                        Ok((defs::rename_ids(&v), codes))
                    }
                    Err(e) => Err(format!("add:{}", kind(&e))),
                }
            }
        })
    });
    Obs { out: r.unwrap_or_else(|p| Err(format!("PANIC {p}"))), points: 0, pended: 0 }
}

// ------------------------------------------------------------------------------------------------------------
// driver
// ------------------------------------------------------------------------------------------------------------

#[derive(Clone, Debug)]
pub enum AnyCase {
    C03(c03::Case),
    C15(c15::Case),
    C39(c39::Case),
    Fx(FxCase),
}
impl AnyCase {
    fn to_json(&self, fl: Flavor) -> Value {
        let (e, c) = match self { AnyCase::C03(c) => ("C03", c.to_json()), AnyCase::C15(c) => ("C15", c.to_json()), AnyCase::C39(c) => ("C39", c.to_json()), AnyCase::Fx(c) => ("fixture", json!({"file": c.file, "ctx": c.ctx, "op": c.op})) };
        let pend = match fl { Flavor::Async(Some(k)) => json!(k), _ => Value::Null };
        json!({"enumeration": e, "case": c, "pending_at": pend})
    }
    fn id(&self) -> String {
        match self { AnyCase::C03(c) => format!("C03 {}", c.id()), AnyCase::C15(c) => format!("C15 {}", c.id()), AnyCase::C39(c) => format!("C39 {}", c.id()), AnyCase::Fx(c) => format!("fixture {} {} ctx={}", c.op, c.file, c.ctx) }
    }
    fn group(&self) -> String {
        match self {
            AnyCase::C03(c) => format!("enum=C03 mode={} v={} c={} trust={} fault={}", c.mode, c.ver, c.compress as u8, c.trust as u8, c.fault),
            AnyCase::C15(c) => format!("enum=C15 kind={} fmt={}", if c.real { "real" } else { "sized" }, c.fmt),
            AnyCase::C39(c) => format!("enum=C39 state={} rel={} mode={}", c.state, c.rel, c.mode),
            AnyCase::Fx(c) => format!("enum=fixture op={} ctx={} file={}", c.op, c.ctx, c.file),
        }
    }
    fn flow(&self, seeds: &[c39::Seed], fl: Flavor) -> Obs {
        match (self, fl) {
            (AnyCase::C03(c), Flavor::Sync) => c03_sync(c),
            (AnyCase::C03(c), Flavor::Async(p)) => c03_async(c, p),
            (AnyCase::C15(c), f) => c15_flow(c, f),
            (AnyCase::C39(c), f) => c39_flow(c, seeds, f),
            (AnyCase::Fx(c), f) => fx_flow(c, f),
        }
    }
}

/// None when the two observations agree, else (key part, description).
fn compare(s: &Obs, a: &Obs) -> Option<(String, String)> {
    match (&s.out, &a.out) {
        (Err(x), Err(y)) => if x == y { None } else { Some((format!("error-kind-differs sync={x} async={y}"), format!("sync {x}, async {y}"))) },
        (Ok(_), Err(y)) => Some((format!("outcome-differs sync=ok async={y}"), format!("sync succeeded, async failed with {y}"))),
        (Err(x), Ok(_)) => Some((format!("outcome-differs sync={x} async=ok"), format!("sync failed with {x}, async succeeded"))),
        (Ok((v1, c1)), Ok((v2, c2))) => {
            if c1 != c2 {
                let only_s: Vec<&String> = c1.iter().filter(|x| !c2.contains(x)).collect();
                let only_a: Vec<&String> = c2.iter().filter(|x| !c1.contains(x)).collect();
                return Some(("codes-differ".into(), format!("only sync: {only_s:?}; only async: {only_a:?}")));
            }
            first_diff(v1, v2, "").map(|d| {
                let loc: String = d.split(|ch| ch == ' ' || ch == ':').next().unwrap_or("").chars().filter(|ch| !ch.is_ascii_digit()).collect();
                (format!("report-differs at={loc}"), d)
            })
        }
    }
}

static STATS: std::sync::OnceLock<kit::defs::KeyStats> = std::sync::OnceLock::new();

fn judge(run: &Run, case: &AnyCase, seeds: &[c39::Seed], only_pend: Option<Option<usize>>) {
    let s = case.flow(seeds, Flavor::Sync);
    run.eval();
    let a0 = case.flow(seeds, Flavor::Async(None));
    run.eval();
    run.outcome(match &s.out { Ok(_) => "sync-ok".to_string(), Err(e) => format!("sync-err:{e}") });
    let report = |fl: Flavor, a: &Obs| {
        if let Some((k, w)) = compare(&s, a) {
            let dev = match fl { Flavor::Async(Some(_)) => "pending-once", _ => "undisturbed" };
            STATS.get_or_init(Default::default).violation(run, 25, format!("{k} {} async={dev}", case.group()), format!("{} [{fl:?}]: {w}", case.id()), case.to_json(fl));
            run.outcome("disagree");
        }
    };
    if only_pend.is_none() || only_pend == Some(None) {
        report(Flavor::Async(None), &a0);
    }
    if a0.points > 0 || matches!(a0.out, Ok(_)) {
        run.nontrivial(format!("{} undisturbed", case.id()));
    }
    for k in 0..a0.points {
        if let Some(p) = only_pend {
            if p != Some(k) { continue; }
        }
        let ak = case.flow(seeds, Flavor::Async(Some(k)));
        run.eval();
        if ak.pended != 1 {
            // the undisturbed run reached await point k, so must this one (same inputs): otherwise the flow is not deterministic
            kit::ev::machinery(format!("C40: {} reached {} await points undisturbed but point {k} was not reached when disturbed", case.id(), a0.points));
        }
        run.nontrivial(format!("{} pend@{k}", case.id()));
        report(Flavor::Async(Some(k)), &ak);
    }
}

pub fn run(run: &Run, replay: Option<&Value>) {
    run.rule("cases = the quick sub-products of the C03 (configurations x definitions), C15 (exclusion lists, via data_hashed_placeholder + sign_data_hashed_embeddable) and C39 (ingredient state x relationship x mode) \
              enumerations; each is executed with the sync API, with the async API undisturbed, and with the async API once per signer await point k with that future returning Pending once (deviation bound 1). \
              non-trivial = distinct (case, k) async executions that reached the signer (k ranges over every await point observed in the undisturbed run) plus the undisturbed async executions.");
    run.assume("equivalent signers: the async signer forwards to the same fixture signer object type; ECDSA/PSS signatures are randomised, reports are compared after kit::canon with the hashes of hashed URIs removed");
    run.assume("sign_embeddable / with_archive have no async twin on this tree; the C15 enumeration goes through data_hashed_placeholder + sign_data_hashed_embeddable(_async), the pair named in the property");
    run.assume("repository fixtures are read with network fetches (remote manifests, OCSP) switched off in both settings variants; everything else of the 'default' variant is Context::new()");
    run.assume("no resolver futures are exercised (network access is disabled in the kit context), so the only futures that can be Pending are the signer's");
    let thorough = run.tier.is_thorough();
    let seeds = c39::seeds(false);
    if let Some(c) = replay {
        let case = match c["enumeration"].as_str() {
            Some("C03") => AnyCase::C03(c03::Case::from_json(&c["case"])),
            Some("C15") => AnyCase::C15(c15::Case::from_json(&c["case"])),
            Some("fixture") => AnyCase::Fx(FxCase { file: c["case"]["file"].as_str().unwrap_or("C.jpg").into(), ctx: c["case"]["ctx"].as_str().unwrap_or("kit").into(), op: c["case"]["op"].as_str().unwrap_or("read").into() }),
            _ => AnyCase::C39(c39::Case::from_json(&c["case"])),
        };
        let pend = c["pending_at"].as_u64().map(|k| k as usize);
        let s = case.flow(&seeds, Flavor::Sync);
        let a = case.flow(&seeds, Flavor::Async(pend));
        println!("replay {} pending_at={pend:?}: sync {:?} / async {:?} (await points {})", case.id(), s.out.as_ref().map(|_| "ok"), a.out.as_ref().map(|_| "ok"), a.points);
        println!("  comparison: {:?}", compare(&s, &a));
        judge(run, &case, &seeds, Some(pend));
        return;
    }
    // soundness of the comparator: the sync flavour twice must agree with itself on one case of each enumeration
    let probes = vec![
        AnyCase::Fx(FxCase { file: "CA.jpg".into(), ctx: "default".into(), op: "read".into() }),
        AnyCase::Fx(FxCase { file: "C.jpg".into(), ctx: "kit".into(), op: "ingredient".into() }),
        AnyCase::C03(c03::Case { def: Def::full(), alg: "es256".into(), ..c03::Case::base("jpeg") }),
        AnyCase::C03(c03::Case { alg: "ps256".into(), mode: "sidecar".into(), ver: 1, ..c03::Case::base("png") }),
        AnyCase::C15(c15::Case { real: true, fmt: "jpeg".into(), n: 1, co: 0, cl: 9, reserve_extra: 0, rich: true, alg: "ed25519".into(), pure: false, legacy: false, widths: vec![] }),
        AnyCase::C39(c39::Case { seed: "png".into(), state: "tampered".into(), rel: "componentOf".into(), mode: "chain2".into(), parent: "jpeg".into(), def: "minimal".into() }),
    ];
    for p in &probes {
        let (x, y) = (p.flow(&seeds, Flavor::Sync), p.flow(&seeds, Flavor::Sync));
        run.evals(2);
        if let Some((k, w)) = compare(&x, &y) {
            kit::ev::machinery(format!("C40: the sync flavour disagrees with itself on {}: {k}: {w}", p.id()));
        }
        let a = p.flow(&seeds, Flavor::Async(None));
        run.eval();
        run.sample(json!({"case": p.to_json(Flavor::Async(None)), "sync": x.out.as_ref().map(|_| "ok").map_err(|e| e.clone()), "async": a.out.as_ref().map(|_| "ok").map_err(|e| e.clone()), "signer_await_points": a.points}));
    }

    let names: Vec<&str> = assets::all().iter().map(|a| a.name).collect();
    let algs: Vec<&str> = sdk::ALGS.iter().map(|x| x.0).collect();
    let mut cases: Vec<AnyCase> = vec![];
    // C03 sub-products A-D (and F; E in the thorough tier)
    let mut n03 = 0usize;
    // quick tier: the algorithm products run on one asset per handler family (the sync/async split is in store / claim /
    // cose code, not in the format handlers); thorough: every asset
    let fam = ["jpeg", "png", "mp4", "wav", "svg", "tiff"];
    for n in &names { for a in &algs { for h in ["sha256", "sha384", "sha512"] {
        if !thorough && !fam.contains(n) { continue; }
        cases.push(AnyCase::C03(c03::Case { alg: a.to_string(), hash: h.to_string(), ..c03::Case::base(n) })); n03 += 1;
    }}}
    for n in &names { for comp in [false, true] { for ver in [1u8, 2] { for m in ["embedded", "sidecar", "remote"] {
        // manifest compression costs ~1 s of CPU per signing inside the SDK: quick tier crosses it on three assets only
        if comp && !thorough && !["jpeg", "png", "mp4"].contains(n) { continue; }
        cases.push(AnyCase::C03(c03::Case { compress: comp, ver, mode: m.to_string(), ..c03::Case::base(n) })); n03 += 1;
    }}}}
    for n in &names { for d in defs::core_defs() {
        cases.push(AnyCase::C03(c03::Case { def: d, ..c03::Case::base(n) })); n03 += 1;
    }}
    for n in &names { for a in &algs {
        if !thorough && !fam.contains(n) { continue; }
        cases.push(AnyCase::C03(c03::Case { alg: a.to_string(), trust: true, ..c03::Case::base(n) })); n03 += 1;
    }}
    for n in ["jpeg", "png"] { for k in [Kind::Cbor, Kind::Json] { for len in defs::sweep_lengths(false) {
        if !thorough && !(n == "jpeg" && k == Kind::Cbor) { continue; }
        cases.push(AnyCase::C03(c03::Case { def: Def::sweep(k, len), ..c03::Case::base(n) })); n03 += 1;
    }}}
    // G: faulty signers (a corrupted signature must be refused, or accepted, by both flavours alike)
    for n in &names { for fault in [1u8, 2] { for ver in [1u8, 2] {
        cases.push(AnyCase::C03(c03::Case { fault, ver, ..c03::Case::base(n) })); n03 += 1;
    }}}
    if thorough {
        for d in defs::all_defs() { cases.push(AnyCase::C03(c03::Case { def: d, ..c03::Case::base("jpeg") })); n03 += 1; }
    }
    run.space("C03 sub-products (quick: A and D on {jpeg,png,mp4,wav,svg,tiff}, F on jpeg/cbor; thorough: all assets) A (asset x alg x hash), B (asset x version x mode, compressed too on jpeg/png/mp4 (thorough: all assets)), C (asset x core definitions), D (asset x alg, trust anchors), F (payload length sweep), G (asset x signer fault {corrupted signature, signer error} x version); thorough: + E (all definitions on jpeg)", n03 as u64, true);
    let (real, mut sized, _) = c15::cases(false);
    if !thorough {
        sized.retain(|c| c.reserve_extra == 0 && !c.rich);
    }
    let n15 = real.len() + sized.len();
    for c in real.into_iter().chain(sized.into_iter()) { cases.push(AnyCase::C15(c)); }
    run.space("C15 quick enumeration (real cases; sized exclusion lists, quick tier: default reserve and simple definition only) through data_hashed_placeholder + sign_data_hashed_embeddable(_async)", n15 as u64, true);
    let mut n39 = 0usize;
    for s in &seeds { for st in c39::STATES { for rel in c39::RELS { for mode in c39::MODES {
        cases.push(AnyCase::C39(c39::Case { seed: s.name.clone(), state: st.into(), rel: rel.into(), mode: mode.into(), parent: "jpeg".into(), def: "minimal".into() })); n39 += 1;
    }}}}
    run.space("C39 quick enumeration: seed asset(13) x state(3) x relationship(3) x mode(3)", n39 as u64, true);
    let files = fixture_files();
    if files.len() < 10 || !files.iter().any(|f| f == "C.jpg") {
        kit::ev::machinery(format!("C40: repository fixtures not found ({} files)", files.len()));
    }
    let mut nfx = 0usize;
    for f in &files { for ctx in ["kit", "default"] { for op in ["read", "ingredient"] {
        cases.push(AnyCase::Fx(FxCase { file: f.clone(), ctx: ctx.into(), op: op.into() })); nfx += 1;
    }}}
    run.space(&format!("repository fixtures <= 200 KB ({} files: time-stamped, claim v1, old ingredient assertions, CAWG, remote references, unsigned, malformed) x settings {{kit, SDK default with network fetches off}} x {{Reader::with_stream vs with_stream_async, add_ingredient_from_stream vs _async}}", files.len()), nfx as u64, true);
    run.extra("fixtures", json!(files));
    if std::env::var("VERIF_DEBUG").is_ok() {
        eprintln!("C40: setup done at {:.1}s", run.elapsed());
        for e in ["C03", "C15", "C39"] {
            let t0 = run.elapsed();
            let sub: Vec<&AnyCase> = cases.iter().filter(|c| c.id().starts_with(e)).collect();
            par::for_each(&sub, |c| judge(run, c, &seeds, None));
            eprintln!("C40: {e}: {} cases in {:.1}s", sub.len(), run.elapsed() - t0);
        }
        STATS.get_or_init(Default::default).finish(run, "C40");
        return;
    }
    par::for_each(&cases, |c| judge(run, c, &seeds, None));
    STATS.get_or_init(Default::default).finish(run, "C40");
}

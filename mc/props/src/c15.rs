//! C15 — embeddable signing returns bytes of exactly the placeholder size (data-hash placeholder workflow).
//! Both signing flows are first-class legs: the new placeholder()/sign_embeddable() pair (zero-pads the JUMBF) and the legacy
//! data_hashed_placeholder()/sign_data_hashed_embeddable() pair (pads the DataHash through DataHash::pad_to_size).
//! Besides the pure-class lists, an encoded-size sweep runs mixed-width lists whose exclusion array takes EVERY CBOR size
//! from 33 to 300 bytes (the ten reserved dummy ranges are 161 bytes), because padding depends on that total.
//! S-inp: format with composed-manifest support x number of exclusions 1..12 x offset magnitude class x
//! length magnitude class x signer reserve {default, +5000} x definition {simple, rich}, all through the
//! public flow placeholder -> set_data_hash_exclusions -> update_hash_from_stream -> sign_embeddable.
//!
//! Two kinds of case:
//!  * real  (n = 1): the placeholder is really embedded in a kit asset behind a filler that puts it at an offset of
//!    the wanted magnitude class; the signed bytes are patched in place and the asset must read back Valid.
//!  * sized (n = 1..12): the exclusion list has the wanted number / magnitudes; the hashed stream is a sparse virtual
//!    stream long enough for the list (nothing of this size is ever materialised). Only the size contract is judged.
//!
//! Mutants caught (tools/mutant_run.sh H <diff> C15 quick):
//!   /verif/mutants/C15-pad-to-size-tracked-arithmetically.diff (independently seeded; first MISSED, which led to the legacy
//!       leg and the encoded-size sweep) -> `shorter-than-placeholder flow=legacy enc=104 n=* by=-1`
//!   /verif/mutants/C15-pad-one-short.diff           -> `shorter-than-placeholder ... by=-1`
//!   /verif/mutants/C15-oversize-tolerance-32.diff   -> `longer-than-placeholder ... by=+N` (N <= 32)
//! History: on the tree first examined sign_embeddable returned up to +118 bytes with no error for 123 of the 300 (n, offset
//! class, length class) combinations (from n=6 with 9-byte integers, every combination from n=10); fixed by a9009da88/bf7cd2f6a.

use c2pa::{assertions::DataHash, Builder, BuilderIntent, Context, DigitalSourceType, HashRange, Reader, Signer, SigningAlg};
use kit::{assets, defs::Def, par, sdk, Run};
use serde_json::{json, Value};
use std::io::{Cursor, Read, Seek, SeekFrom};

pub struct OwnedReserve {
    pub inner: Box<dyn Signer + Send + Sync>,
    pub extra: usize,
}
impl Signer for OwnedReserve {
    fn sign(&self, data: &[u8]) -> c2pa::Result<Vec<u8>> {
        self.inner.sign(data)
    }
    fn alg(&self) -> SigningAlg {
        self.inner.alg()
    }
    fn certs(&self) -> c2pa::Result<Vec<Vec<u8>>> {
        self.inner.certs()
    }
    fn reserve_size(&self) -> usize {
        self.inner.reserve_size() + self.extra
    }
}

pub const FORMATS: [(&str, &str); 6] = [
    ("jpeg", "image/jpeg"),
    ("png", "image/png"),
    ("gif", "image/gif"),
    ("tiff", "image/tiff"),
    ("jxl", "image/jxl"),
    ("c2pa", "application/c2pa"),
];

pub const CLASS_LO: [u64; 5] = [0, 24, 256, 65_536, 1 << 32];
#[allow(dead_code)]
pub const CLASS_NAME: [&str; 5] = ["<24", "<256", "<2^16", "<2^32", ">=2^32"];

pub fn class_of(x: u64) -> usize {
    (0..5).rev().find(|c| x >= CLASS_LO[*c]).unwrap_or(0)
}

// ---- embedding a composed placeholder in a kit asset behind a filler -----------------------------------------

fn jpeg_com(n: usize) -> Vec<u8> {
    // COM segments carrying n data bytes in total
    let mut v = vec![];
    let mut left = n;
    while left > 0 {
        let k = left.min(60_000);
        v.extend_from_slice(&[0xFF, 0xFE]);
        v.extend_from_slice(&((k + 2) as u16).to_be_bytes());
        v.extend(std::iter::repeat(0x41u8).take(k));
        left -= k;
    }
    v
}

fn gif_comment(n: usize) -> Vec<u8> {
    if n == 0 {
        return vec![];
    }
    let mut v = vec![0x21, 0xFE];
    let mut left = n;
    while left > 0 {
        let k = left.min(255);
        v.push(k as u8);
        v.extend(std::iter::repeat(0x42u8).take(k));
        left -= k;
    }
    v.push(0);
    v
}

fn tiff_with(filler: usize, p: &[u8]) -> (Vec<u8>, usize) {
    let mut v = vec![b'I', b'I', 0x2A, 0, 0, 0, 0, 0];
    v.extend(std::iter::repeat(0x11u8).take(filler));
    let p_off = v.len();
    v.extend_from_slice(p);
    let strip_off = v.len();
    v.extend_from_slice(&[0xAA, 0xBB, 0xCC, 0xDD]);
    if v.len() % 2 == 1 {
        v.push(0);
    }
    let ifd_off = v.len() as u32;
    v[4..8].copy_from_slice(&ifd_off.to_le_bytes());
    let ents: Vec<(u16, u16, u32, u32)> = vec![
        (256, 3, 1, 1), (257, 3, 1, 1), (258, 3, 1, 8), (259, 3, 1, 1), (262, 3, 1, 1), (273, 4, 1, strip_off as u32),
        (277, 3, 1, 1), (278, 3, 1, 1), (279, 4, 1, 4), (0xCD41, 7, p.len() as u32, p_off as u32),
    ];
    v.extend_from_slice(&(ents.len() as u16).to_le_bytes());
    for (t, ty, c, val) in ents {
        v.extend_from_slice(&t.to_le_bytes());
        v.extend_from_slice(&ty.to_le_bytes());
        v.extend_from_slice(&c.to_le_bytes());
        if ty == 3 {
            v.extend_from_slice(&(val as u16).to_le_bytes());
            v.extend_from_slice(&[0, 0]);
        } else {
            v.extend_from_slice(&val.to_le_bytes());
        }
    }
    v.extend_from_slice(&[0, 0, 0, 0]);
    (v, p_off)
}

/// The asset with the composed bytes `p` embedded behind `filler` bytes of format-appropriate filler.
/// Returns (asset, offset of p). None for the sidecar pseudo format (nothing is embedded).
pub fn embed(fmt: &str, filler: usize, p: &[u8]) -> Option<(Vec<u8>, usize)> {
    match fmt {
        "jpeg" => {
            let b = assets::jpeg();
            let mut v = b[..2].to_vec();
            v.extend(jpeg_com(filler));
            let off = v.len();
            v.extend_from_slice(p);
            v.extend_from_slice(&b[2..]);
            Some((v, off))
        }
        "png" => {
            let b = assets::png();
            let mut v = b[..33].to_vec();
            if filler > 0 {
                v.extend(assets::png_chunk(b"vrFy", &vec![0x43u8; filler]));
            }
            let off = v.len();
            v.extend_from_slice(p);
            v.extend_from_slice(&b[33..]);
            Some((v, off))
        }
        "gif" => {
            let b = assets::gif();
            let mut v = b[..19].to_vec();
            v.extend(gif_comment(filler));
            let off = v.len();
            v.extend_from_slice(p);
            v.extend_from_slice(&b[19..]);
            Some((v, off))
        }
        "jxl" => {
            let b = assets::jxl();
            let mut v = b[..32].to_vec();
            if filler > 0 {
                v.extend(assets::bx(b"free", &vec![0u8; filler]));
            }
            let off = v.len();
            v.extend_from_slice(p);
            v.extend_from_slice(&b[32..]);
            Some((v, off))
        }
        "tiff" => Some(tiff_with(filler, p)),
        _ => None,
    }
}

/// Filler sizes that put the placeholder at an offset of magnitude class `co` (None: impossible for the format).
pub fn filler_for(fmt: &str, co: usize) -> Option<usize> {
    // smallest possible offset per format
    let min_off: u64 = match fmt { "jpeg" => 2, "png" => 33, "gif" => 19, "jxl" => 32, "tiff" => 8, _ => return None };
    if co == 4 {
        return None;
    }
    if class_of(min_off) == co {
        return Some(0);
    }
    if class_of(min_off) > co {
        return None;
    }
    Some(match co { 1 => 40, 2 => 600, _ => 80_000 })
}

// ---- sparse virtual stream ----------------------------------------------------------------------------------

pub struct Sparse {
    pub head: Vec<u8>,
    pub len: u64,
    pub pos: u64,
    pub served: u64,
}
impl Read for Sparse {
    fn read(&mut self, buf: &mut [u8]) -> std::io::Result<usize> {
        if self.pos >= self.len {
            return Ok(0);
        }
        let n = (buf.len() as u64).min(self.len - self.pos) as usize;
        let h = self.head.len() as u64;
        buf[..n].fill(0);
        if self.pos < h {
            let k = ((h - self.pos) as usize).min(n);
            buf[..k].copy_from_slice(&self.head[self.pos as usize..self.pos as usize + k]);
        }
        self.pos += n as u64;
        self.served += n as u64;
        Ok(n)
    }
}
impl Seek for Sparse {
    fn seek(&mut self, s: SeekFrom) -> std::io::Result<u64> {
        let np: i128 = match s {
            SeekFrom::Start(x) => x as i128,
            SeekFrom::End(d) => self.len as i128 + d as i128,
            SeekFrom::Current(d) => self.pos as i128 + d as i128,
        };
        if np < 0 {
            return Err(std::io::Error::new(std::io::ErrorKind::InvalidInput, "seek before start"));
        }
        self.pos = np as u64;
        Ok(self.pos)
    }
}

// ---- exclusion lists ------------------------------------------------------------------------------------------

/// The exclusion list for (n, offset class, length class). `bridged` = a leading range [head_end, 2^32) was used so that
/// the 4 GiB below the first >=2^32 offset need not be hashed (that range is one of the n).
pub fn exclusion_list(n: usize, co: usize, cl: usize, head_end: u64, pure: bool) -> Option<(Vec<(u64, u64)>, bool)> {
    let len_lo = CLASS_LO[cl].max(1);
    let width = if co < 4 { CLASS_LO[co + 1] - CLASS_LO[co] } else { u64::MAX / 4 };
    let mut v = vec![];
    let mut bridged = false;
    let mut m = n;
    if co == 4 && !pure {
        if n < 2 {
            return None;
        }
        v.push((head_end, (1u64 << 32) - head_end));
        bridged = true;
        m = n - 1;
    }
    // stride: disjoint when the class is wide enough, otherwise overlapping (hashing treats exclusions as a union)
    let want = len_lo + 16;
    let stride = if (m as u64) * want < width { want } else { (width / 12).max(2) };
    for i in 0..m as u64 {
        v.push((CLASS_LO[co] + i * stride, len_lo + (i % 3)));
    }
    Some((v, bridged))
}

// ---- cases ----------------------------------------------------------------------------------------------------

#[derive(Clone, Debug)]
pub struct Case {
    pub real: bool,
    pub fmt: String,
    pub n: usize,
    pub co: usize,
    pub cl: usize,
    pub reserve_extra: usize,
    pub rich: bool,
    pub alg: String,
    pub pure: bool,
    /// false: placeholder() + set_data_hash_exclusions + update_hash_from_stream + sign_embeddable;
    /// true: the legacy pair data_hashed_placeholder(reserve, format) + sign_data_hashed_embeddable(signer, &DataHash, format)
    pub legacy: bool,
    /// non-empty: a mixed-width list, one (CBOR width of start, CBOR width of length) pair per range, widths in {1,2,3,5,9};
    /// empty: the pure-class list of (n, co, cl)
    pub widths: Vec<(u8, u8)>,
}
impl Case {
    pub fn proto() -> Case {
        Case { real: false, fmt: "jpeg".into(), n: 1, co: 0, cl: 0, reserve_extra: 0, rich: false, alg: "ed25519".into(), pure: false, legacy: false, widths: vec![] }
    }
    /// CBOR size of the exclusion array of a mixed-width list: 1 + sum(1 + 6 + ws + 7 + wl)
    pub fn enc(&self) -> usize {
        1 + self.widths.iter().map(|(a, b)| 14 + *a as usize + *b as usize).sum::<usize>()
    }
    fn list_id(&self) -> String {
        if self.widths.is_empty() { format!("n={:02} co={} cl={}", self.n, self.co, self.cl) } else { format!("enc={:03} n={:02}", self.enc(), self.widths.len()) }
    }
    fn flow(&self) -> &'static str {
        if self.legacy { "legacy" } else { "new" }
    }
    pub fn to_json(&self) -> Value {
        json!({"real": self.real, "fmt": self.fmt, "n": self.n, "co": self.co, "cl": self.cl, "reserve_extra": self.reserve_extra, "rich": self.rich, "alg": self.alg, "pure": self.pure, "legacy": self.legacy,
               "widths": self.widths.iter().map(|(a, b)| json!([a, b])).collect::<Vec<_>>()})
    }
    pub fn from_json(v: &Value) -> Case {
        Case {
            real: v["real"].as_bool().unwrap_or(false),
            fmt: v["fmt"].as_str().unwrap_or("jpeg").into(),
            n: v["n"].as_u64().unwrap_or(1) as usize,
            co: v["co"].as_u64().unwrap_or(0) as usize,
            cl: v["cl"].as_u64().unwrap_or(0) as usize,
            reserve_extra: v["reserve_extra"].as_u64().unwrap_or(0) as usize,
            rich: v["rich"].as_bool().unwrap_or(false),
            alg: v["alg"].as_str().unwrap_or("ed25519").into(),
            pure: v["pure"].as_bool().unwrap_or(false),
            legacy: v["legacy"].as_bool().unwrap_or(false),
            widths: v["widths"].as_array().map(|a| a.iter().map(|p| (p[0].as_u64().unwrap_or(1) as u8, p[1].as_u64().unwrap_or(1) as u8)).collect()).unwrap_or_default(),
        }
    }
    pub fn id(&self) -> String {
        format!("{} {} {} {} r+{} {} {}{}", self.flow(), if self.real { "real" } else { "sized" }, self.fmt, self.list_id(), self.reserve_extra,
            if self.rich { "rich" } else { "simple" }, self.alg, if self.pure { " pure" } else { "" })
    }
    pub fn mime(&self) -> &'static str {
        FORMATS.iter().find(|f| f.0 == self.fmt).map(|f| f.1).unwrap_or("image/jpeg")
    }
}

pub fn width_lo(w: u8) -> u64 {
    match w { 1 => 0, 2 => 24, 3 => 256, 5 => 65_536, _ => 1 << 32 }
}

/// Concrete ranges for a mixed-width list: the j-th range whose start has width w starts at lo(w) + step*j (inside the
/// class for up to 12 ranges), its length is lo(width) (at least 1) + j%3. Start widths are 1,2,3,5 (a 9-byte start needs the
/// 4 GiB bridge and is covered by the pure-class lists); ranges may overlap (hashing treats exclusions as a union).
pub fn width_list(widths: &[(u8, u8)]) -> Vec<(u64, u64)> {
    let mut count = [0u64; 10];
    let mut v: Vec<(u64, u64)> = widths.iter().map(|(ws, wl)| {
        let j = count[*ws as usize];
        count[*ws as usize] += 1;
        let step = match ws { 1 => 2, 2 => 19, _ => 40 };
        (width_lo(*ws) + step * j, width_lo(*wl).max(1) + j % 3)
    }).collect();
    v.sort();
    v
}

/// CBOR width of an unsigned integer.
pub fn cbor_width(x: u64) -> u8 {
    if x < 24 { 1 } else if x < 256 { 2 } else if x < 65_536 { 3 } else if x < (1 << 32) { 5 } else { 9 }
}

/// Mixed-width lists: for every n in 1..=12 and every reachable sum S of per-range width sums (start width in {1,2,3,5},
/// length width in {1,2,3,5,9}) one witness list. `per_size` = keep, for every distinct total encoded size, only the list
/// with the fewest and the list with the most ranges.
pub fn sweep_lists(per_size: bool) -> Vec<Vec<(u8, u8)>> {
    // witness (ws, wl) for each per-range sum ws + wl
    let pairs: [(usize, (u8, u8)); 11] = [(2, (1, 1)), (3, (2, 1)), (4, (1, 3)), (5, (2, 3)), (6, (3, 3)), (7, (5, 2)), (8, (3, 5)), (10, (5, 5)), (11, (2, 9)), (12, (3, 9)), (14, (5, 9))];
    // reach[k][S] = per-range sum used last
    let mut reach: Vec<std::collections::BTreeMap<usize, usize>> = vec![std::collections::BTreeMap::new(); 13];
    reach[0].insert(0, 0);
    for k in 1..=12 {
        let prev: Vec<usize> = reach[k - 1].keys().copied().collect();
        for s0 in prev {
            // larger steps first so that witnesses mix widths instead of piling up the smallest one
            for (p, _) in pairs.iter().rev() {
                reach[k].entry(s0 + p).or_insert(*p);
            }
        }
    }
    let mut all: Vec<Vec<(u8, u8)>> = vec![];
    for k in 1..=12usize {
        for (s_total, _) in reach[k].iter() {
            let mut list = vec![];
            let (mut kk, mut ss) = (k, *s_total);
            while kk > 0 {
                let p = reach[kk][&ss];
                list.push(pairs.iter().find(|x| x.0 == p).map(|x| x.1).unwrap_or((1, 1)));
                ss -= p;
                kk -= 1;
            }
            all.push(list);
        }
    }
    if !per_size {
        return all;
    }
    let mut by_size: std::collections::BTreeMap<usize, (Vec<(u8, u8)>, Vec<(u8, u8)>)> = std::collections::BTreeMap::new();
    for l in all {
        let t = 1 + l.iter().map(|(a, b)| 14 + *a as usize + *b as usize).sum::<usize>();
        match by_size.get_mut(&t) {
            None => { by_size.insert(t, (l.clone(), l)); }
            Some((lo, hi)) => {
                if l.len() < lo.len() { *lo = l.clone(); }
                if l.len() > hi.len() { *hi = l; }
            }
        }
    }
    let mut out = vec![];
    for (_, (lo, hi)) in by_size {
        if lo.len() != hi.len() { out.push(hi); }
        out.push(lo);
    }
    out
}

/// The concrete exclusion list of a sized case.
pub fn ranges_of(c: &Case, head_end: u64) -> Vec<(u64, u64)> {
    if !c.widths.is_empty() {
        let v = width_list(&c.widths);
        let got: usize = 1 + v.iter().map(|(s, l)| 14 + cbor_width(*s) as usize + cbor_width(*l) as usize).sum::<usize>();
        if got != c.enc() {
            kit::ev::machinery(format!("C15: width list {:?} materialised as {:?} encodes to {got}, not {}", c.widths, v, c.enc()));
        }
        v
    } else {
        exclusion_list(c.n, c.co, c.cl, head_end, c.pure).unwrap_or_else(|| kit::ev::machinery("C15: infeasible exclusion list was enumerated")).0
    }
}

pub fn mk_builder(c: &Case) -> c2pa::Result<Builder> {
    let signer = OwnedReserve { inner: sdk::fixture_signer(&c.alg), extra: c.reserve_extra };
    let ctx: Context = sdk::ctx().with_signer(signer);
    let def = if c.rich { Def::rich() } else { Def::empty() };
    let mut b = Builder::from_context(ctx).with_definition(def.definition(2, None))?;
    b.set_intent(BuilderIntent::Create(DigitalSourceType::DigitalCapture));
    def.apply(&mut b, 2)?;
    Ok(b)
}

pub struct Res {
    pub placeholder: usize,
    pub signed: Option<usize>,
    pub err: Option<String>,
    /// real cases: validation state of the patched asset (or read error)
    pub state: Option<String>,
    pub hashed_bytes: u64,
    pub ranges: Vec<(u64, u64)>,
}

pub fn run_case(c: &Case) -> Result<Res, String> {
    par::guard(|| {
        let mime = c.mime();
        let mut res = Res { placeholder: 0, signed: None, err: None, state: None, hashed_bytes: 0, ranges: vec![] };
        let mut b = match mk_builder(c) {
            Ok(b) => b,
            Err(e) => { res.err = Some(format!("builder: {e:?}")); return res; }
        };
        let legacy_signer = OwnedReserve { inner: sdk::fixture_signer(&c.alg), extra: c.reserve_extra };
        let ph = match if c.legacy { b.data_hashed_placeholder(legacy_signer.reserve_size(), mime) } else { b.placeholder(mime) } {
            Ok(p) => p,
            Err(e) => { res.err = Some(format!("placeholder: {e:?}")); return res; }
        };
        res.placeholder = ph.len();
        let r: c2pa::Result<Vec<u8>> = (|| {
            // the asset (real) or virtual stream (sized) that is hashed, and the exclusion list
            let (asset, off) = if c.real {
                let filler = filler_for(&c.fmt, c.co).unwrap_or(0);
                let (asset, off) = embed(&c.fmt, filler, &ph).unwrap_or_else(|| kit::ev::machinery("C15: real case for a format without embedding"));
                if class_of(off as u64) != c.co {
                    kit::ev::machinery(format!("C15: filler for {} puts the placeholder at {off}, not in class {}", c.fmt, c.co));
                }
                res.ranges = vec![(off as u64, ph.len() as u64)];
                (asset, off)
            } else {
                let head = embed(&c.fmt, 0, &ph).map(|x| x.0).unwrap_or_else(|| vec![0x5Au8; 64]);
                res.ranges = ranges_of(c, head.len() as u64 + 8);
                (head, 0)
            };
            let end = res.ranges.iter().map(|r| r.0 + r.1).max().unwrap_or(0).max(asset.len() as u64) + if c.real { 0 } else { 64 };
            let mut stream = Sparse { head: asset.clone(), len: end, pos: 0, served: 0 };
            let excl: Vec<HashRange> = res.ranges.iter().map(|r| HashRange::new(r.0, r.1)).collect();
            let signed = if c.legacy {
                let mut dh = DataHash::new("jumbf manifest", "sha256");
                for e in excl {
                    dh.add_exclusion(e);
                }
                dh.gen_hash_from_stream(&mut stream)?;
                res.hashed_bytes = stream.served;
                b.sign_data_hashed_embeddable(&legacy_signer, &dh, mime)?
            } else {
                b.set_data_hash_exclusions(excl)?;
                b.update_hash_from_stream(mime, &mut stream)?;
                res.hashed_bytes = stream.served;
                b.sign_embeddable(mime)?
            };
            if c.real && signed.len() == ph.len() {
                let mut patched = asset.clone();
                patched[off..off + signed.len()].copy_from_slice(&signed);
                res.state = Some(match par::guard(|| Reader::from_context(sdk::ctx()).with_stream(mime, Cursor::new(&patched))) {
                    Ok(Ok(rd)) => sdk::state_name(rd.validation_state()).to_string(),
                    Ok(Err(e)) => format!("read-error {}", sdk::err_kind(&e)),
                    Err(p) => format!("read-panic {p}"),
                });
            }
            Ok(signed)
        })();
        match r {
            Ok(s) => res.signed = Some(s.len()),
            Err(e) => res.err = Some(format!("{e:?}")),
        }
        res
    })
}

static STATS: std::sync::OnceLock<kit::defs::KeyStats> = std::sync::OnceLock::new();

fn violation(run: &Run, key: String, what: String, case: Value) {
    STATS.get_or_init(Default::default).violation(run, 10, key, what, case);
}

fn judge(run: &Run, c: &Case, r: Result<Res, String>) {
    run.eval();
    match r {
        Err(p) => {
            run.outcome("panic");
            violation(run, format!("panic flow={} {} fmt={}", c.flow(), if c.real { "real" } else { "sized" }, c.fmt), format!("{}: {p}", c.id()), c.to_json());
        }
        Ok(res) => {
            if let Some(e) = &res.err {
                run.outcome(format!("err:{}", e.split(|ch: char| !(ch.is_alphanumeric() || ch == ':' || ch == ' ')).next().unwrap_or("")));
                // an error is an allowed outcome of the size contract; a real single-exclusion flow that errors is still
                // reported because then no patched asset exists that could read back Valid
                if c.real {
                    violation(run, format!("real-flow-error flow={} fmt={} co={}", c.flow(), c.fmt, c.co), format!("{}: {e}", c.id()), c.to_json());
                }
                return;
            }
            let signed = res.signed.unwrap_or(0);
            run.nontrivial(c.id());
            let d = signed as i64 - res.placeholder as i64;
            if d == 0 {
                run.outcome("same-size");
            } else if d > 0 {
                run.outcome("longer");
                violation(run, format!("longer-than-placeholder flow={} {} by=+{d}", c.flow(), c.list_id()),
                    format!("{}: placeholder {} bytes, the signing call returned {} bytes (+{d}), no error; exclusions {:?}", c.id(), res.placeholder, signed, res.ranges), c.to_json());
            } else {
                run.outcome("shorter");
                violation(run, format!("shorter-than-placeholder flow={} {} by={d}", c.flow(), c.list_id()),
                    format!("{}: placeholder {} bytes, the signing call returned {} bytes ({d}), no error; exclusions {:?}", c.id(), res.placeholder, signed, res.ranges), c.to_json());
            }
            if c.real && d == 0 {
                let st = res.state.clone().unwrap_or_default();
                run.outcome(format!("patched:{}", st.split(' ').next().unwrap_or("")));
                if st != "Valid" {
                    violation(run, format!("patched-not-valid flow={} fmt={} co={} state={}", c.flow(), c.fmt, c.co, st.split(' ').take(2).collect::<Vec<_>>().join(" ")),
                        format!("{}: the asset with the signed bytes patched over the placeholder reads back {st}", c.id()), c.to_json());
                }
            }
        }
    }
}

pub fn cases(thorough: bool) -> (Vec<Case>, Vec<Case>, Vec<Case>) {
    // thorough: one algorithm per signature family (the COSE signature box is padded to the reserve, so the algorithm only
    // changes the reserve size)
    let algs: Vec<&str> = if thorough { vec!["ed25519", "ps256"] } else { vec!["ed25519"] };
    let mut real = vec![];
    let mut sized = vec![];
    let mut pure = vec![];
    for alg in &algs {
        for (fmt, _) in FORMATS {
            for reserve_extra in [0usize, 5000] {
                for rich in [false, true] {
                    for co in 0..4 {
                        if filler_for(fmt, co).is_some() {
                            real.push(Case { real: true, fmt: fmt.into(), n: 1, co, cl: 9, reserve_extra, rich, alg: alg.to_string(), pure: false, legacy: false, widths: vec![] });
                        }
                    }
                    for n in 1..=12usize {
                        for co in 0..5 {
                            for cl in 0..5 {
                                if exclusion_list(n, co, cl, 100, false).is_some() {
                                    sized.push(Case { real: false, fmt: fmt.into(), n, co, cl, reserve_extra, rich, alg: alg.to_string(), pure: false, legacy: false, widths: vec![] });
                                }
                            }
                        }
                    }
                }
            }
        }
    }
    if thorough {
        // each of these hashes 4 GiB of the virtual stream (tens of CPU seconds in the checked build): n in {1, 6, 12}
        for n in [1usize, 6, 12] {
            for cl in 0..5 {
                for reserve_extra in [0usize] {
                    pure.push(Case { real: false, fmt: "jpeg".into(), n, co: 4, cl, reserve_extra, rich: false, alg: "ed25519".into(), pure: true, legacy: false, widths: vec![] });
                }
            }
        }
    }
    (real, sized, pure)
}

/// The legs added for the legacy API and for the encoded-size sweep: (legacy real, legacy pure-class sized, mixed-width sweep for both flows).
pub fn extra_cases(thorough: bool) -> (Vec<Case>, Vec<Case>, Vec<Case>) {
    let (real, sized, _) = cases(false);
    let legacy_real: Vec<Case> = real.into_iter().map(|c| Case { legacy: true, ..c }).collect();
    // quick: the pure-class lists through the legacy pair with the simple definition; thorough: both definitions
    let legacy_sized: Vec<Case> = sized.into_iter().filter(|c| thorough || !c.rich).map(|c| Case { legacy: true, ..c }).collect();
    let mut sweep = vec![];
    for widths in sweep_lists(!thorough) {
        for legacy in [false, true] {
            for (fmt, _) in FORMATS {
                for reserve_extra in [0usize, 5000] {
                    for rich in [false, true] {
                        // quick: simple definition; the +5000 reserve on jpeg only
                        if !thorough && (rich || (reserve_extra != 0 && fmt != "jpeg")) { continue; }
                        // thorough: the rich definition with the default reserve only
                        if thorough && rich && reserve_extra != 0 { continue; }
                        sweep.push(Case { fmt: fmt.into(), n: widths.len(), reserve_extra, rich, legacy, widths: widths.clone(), ..Case::proto() });
                    }
                }
            }
        }
    }
    (legacy_real, legacy_sized, sweep)
}

pub fn run(run: &Run, replay: Option<&Value>) {
    run.rule("TWO flows: new = placeholder -> set_data_hash_exclusions -> update_hash_from_stream -> sign_embeddable; legacy = data_hashed_placeholder(reserve) -> DataHash with the exclusions, hashed -> sign_data_hashed_embeddable. \
              For both: pure-class lists, real patched single-exclusion cases, and an encoded-size sweep (mixed-width lists covering every CBOR size of the exclusion array from 33 bytes to beyond the ten reserved ranges, see `spaces`). \
              cases = (format with composed-manifest support and a DataHash binding: jpeg, png, gif, tiff, jxl, sidecar) x number of exclusions n in 1..12 x \
              offset magnitude class {<24,<256,<2^16,<2^32,>=2^32} x length magnitude class (same 5) x signer reserve {default,+5000} x definition {simple, rich}; \
              every case runs placeholder -> set_data_hash_exclusions -> update_hash_from_stream -> sign_embeddable on the real Builder. \
              `real` cases (n=1) embed the placeholder in a kit asset at an offset of the class, patch the result in place and read it back; \
              `sized` cases hash a sparse virtual stream long enough for the list (for offsets >= 2^32 the first of the n ranges bridges [asset end, 2^32) so that 4 GiB need not be hashed; \
              the un-bridged lists are run in the thorough tier). Ranges overlap when a class is too narrow for n disjoint ranges. \
              non-trivial = distinct cases in which sign_embeddable returned bytes (so the size contract was actually judged).");
    run.assume("signer: repository Ed25519 test credentials in the Context (thorough: ed25519, ps256); intent Create; no dynamic assertions");
    run.assume("offset class <24 is impossible for png/jxl (fixed headers are longer) and >=2^32 for any real asset; those real cases are not in the space");
    if let Some(c) = replay {
        let case = Case::from_json(c);
        let r = run_case(&case);
        if let Ok(res) = &r {
            println!("replay {}: placeholder {} signed {:?} err {:?} state {:?} ranges {:?}", case.id(), res.placeholder, res.signed, res.err, res.state, res.ranges);
        }
        judge(run, &case, r);
        return;
    }
    // precondition: formats are exactly those with composed-manifest support and a DataHash binding
    for (fmt, mime) in FORMATS {
        if c2pa::verif_hooks::compose_manifest(mime, &assets::store(100)).is_none() {
            kit::ev::machinery(format!("C15: {fmt} has no composed-manifest support"));
        }
    }
    // determinism of sizes
    {
        let c = Case { real: true, fmt: "jpeg".into(), n: 1, co: 0, cl: 9, reserve_extra: 0, rich: false, alg: "ed25519".into(), pure: false, legacy: false, widths: vec![] };
        let a = run_case(&c).ok().map(|r| (r.placeholder, r.signed, r.state));
        let b = run_case(&c).ok().map(|r| (r.placeholder, r.signed, r.state));
        run.evals(2);
        if a != b || a.is_none() {
            kit::ev::machinery(format!("C15: baseline flow not deterministic or failing: {a:?} vs {b:?}"));
        }
        run.sample(json!({"case": c.to_json(), "observed": format!("{a:?}")}));
    }
    let (real, sized, pure) = cases(run.tier.is_thorough());
    run.space("real single-exclusion cases: format x feasible offset class x reserve x definition (x alg)", real.len() as u64, true);
    run.space("sized cases: format(6) x n(1..12) x offset class(5) x length class(5) x reserve(2) x definition(2) (x alg), minus n=1 with offsets >= 2^32", sized.len() as u64, true);
    if !pure.is_empty() {
        run.space("un-bridged lists with every offset >= 2^32 (4 GiB of the virtual stream is hashed): jpeg x n{1,6,12} x length class(5), default reserve", pure.len() as u64, true);
    }
    par::for_each(&real, |c| judge(run, c, run_case(c)));
    par::for_each(&sized, |c| judge(run, c, run_case(c)));
    par::for_each(&pure, |c| judge(run, c, run_case(c)));
    let (lreal, lsized, sweep) = extra_cases(run.tier.is_thorough());
    run.space("legacy flow (data_hashed_placeholder + sign_data_hashed_embeddable): real single-exclusion cases, format x feasible offset class x reserve x definition", lreal.len() as u64, true);
    run.space("legacy flow: pure-class sized lists, format(6) x n(1..12) x offset class(5) x length class(5) x reserve(2) (quick: simple definition; thorough: both)", lsized.len() as u64, true);
    let sizes: std::collections::BTreeSet<usize> = sweep.iter().map(|c| c.enc()).collect();
    let (lo, hi) = (sizes.iter().next().copied().unwrap_or(0), sizes.iter().last().copied().unwrap_or(0));
    let missing: Vec<usize> = (33..=300usize).filter(|t| !sizes.contains(t)).collect();
    if !missing.is_empty() {
        kit::ev::machinery(format!("C15: the encoded-size sweep is not contiguous from 33 to 300: missing {missing:?}"));
    }
    run.space(&format!("encoded-size sweep, both flows: mixed-width lists (per-range CBOR widths start {{1,2,3,5}} x length {{1,2,3,5,9}}, 1..12 ranges) whose exclusion array encodes to EVERY size from 33 to 300 bytes (and on up to {hi}) \
                        (plus the single-range sizes from {lo}; ten reserved dummy ranges = 161 bytes); quick: fewest-range and most-range witness per size x format(6), +5000 reserve on jpeg; \
                        thorough: one witness per (n, size) x format x (simple definition x reserve(2), rich definition)"), sweep.len() as u64, true);
    run.extra("encoded_sizes_covered", json!({"min": lo, "max": hi, "distinct": sizes.len()}));
    par::for_each(&lreal, |c| judge(run, c, run_case(c)));
    par::for_each(&lsized, |c| judge(run, c, run_case(c)));
    par::for_each(&sweep, |c| judge(run, c, run_case(c)));
    for c in [&sweep[0], &sweep[sweep.len() / 2]] {
        if let Ok(r) = run_case(c) {
            run.sample(json!({"case": c.to_json(), "exclusions": r.ranges, "encoded_size_of_exclusion_array": c.enc(), "placeholder_len": r.placeholder, "signed_len": r.signed, "error": r.err}));
        }
        run.eval();
    }
    STATS.get_or_init(Default::default).finish(run, "C15");
    for c in [&sized[0], &sized[sized.len() / 2], &sized[sized.len() - 1]] {
        if let Ok(r) = run_case(c) {
            run.sample(json!({"case": c.to_json(), "exclusions": r.ranges, "placeholder_len": r.placeholder, "signed_len": r.signed, "error": r.err, "bytes_hashed": r.hashed_bytes}));
        }
        run.eval();
    }
}

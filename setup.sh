#!/bin/bash
# Offline build of the verification framework from files on disk.
set -e
export CARGO_NET_OFFLINE=true
cd /verif/mc
cargo build --release --bin mc
# the real c2patool binary (check C32), in its own target dir, built from /repo's working tree
/verif/tools/build_c2patool.sh >/dev/null

#!/bin/bash
# Offline build of the verification framework from files on disk.
set -e
export CARGO_NET_OFFLINE=true
cd /verif/mc
cargo build --release --bin mc

#!/bin/bash
# Runs the repository's pinned test suite with the verification guard OFF and compares with /root/.vp/BASELINE.json.
# exit 0 iff every test in BASELINE.stable_pass passed.
set -u
unset RUSTFLAGS
cd /repo || exit 2
source /w/out/rust_env.sh 2>/dev/null || true
OUT=${1:-/tmp/baseline_off}
mkdir -p "$OUT"
cargo nextest run --workspace --no-fail-fast --tool-config-file pb:/w/lib/nextest.toml --profile pb --test-threads 8 --offline >"$OUT/nextest.log" 2>&1
rc=$?
J=/repo/target/nextest/pb/junit.xml
python3 - "$J" <<'PY'
import json,sys,xml.etree.ElementTree as ET
base=json.load(open('/root/.vp/BASELINE.json'))
want=set(base['stable_pass'])
t=ET.parse(sys.argv[1]).getroot()
passed=set(); failed=set()
for ts in t.iter('testsuite'):
    for tc in ts.iter('testcase'):
        name=f"{ts.get('name')}::{tc.get('name')}"
        alt=f"{tc.get('classname')}::{tc.get('name')}"
        bad=any(c.tag in('failure','error') for c in tc)
        for n in (name,alt):
            (failed if bad else passed).add(n)
missing=[w for w in want if w not in passed]
print(f"baseline stable_pass={len(want)} passed_now={len(want)-len(missing)} missing_or_failed={len(missing)}")
for m in sorted(missing)[:40]: print("  NOT PASSED:",m)
sys.exit(1 if missing else 0)
PY
